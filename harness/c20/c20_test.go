// Package c20 decides property C20: back-off budget, per-sleep bounds, error
// kind on exhaustion, cancel/kill, and clone/fork/merge accounting.
package c20

import (
	"context"
	"fmt"
	"math"
	"math/rand"
	"sort"
	"strings"
	"testing"

	"github.com/pingcap/failpoint"
	"github.com/pkg/errors"
	"github.com/tikv/client-go/v2/config/retry"
	tikverr "github.com/tikv/client-go/v2/error"
	"github.com/tikv/client-go/v2/kv"
	"github.com/tikv/client-go/v2/util"
	"github.com/tikv/client-go/v2/verif/ev"
	_ "github.com/tikv/client-go/v2/verif/quiet"
	"pgregory.net/rapid"
)

// kind is the documented table of back-off kinds (config/retry/config.go): base, cap, jitter, error, excluded limit.
type kind struct {
	cfg      *retry.Config
	name     string
	base     int
	cap      int
	equal    bool // EqualJitter (else NoJitter)
	err      error
	excluded int // >0: excluded from the budget, bounded by this own limit
}

var kinds = []kind{
	{retry.BoTiKVRPC, "tikvRPC", 100, 2000, true, tikverr.ErrTiKVServerTimeout, 0},
	{retry.BoTiFlashRPC, "tiflashRPC", 100, 2000, true, tikverr.ErrTiFlashServerTimeout, 0},
	{retry.BoTxnLock, "txnLock", 100, 3000, true, tikverr.ErrResolveLockTimeout, 0},
	{retry.BoPDRPC, "pdRPC", 500, 3000, true, tikverr.NewErrPDServerTimeout(""), 0},
	{retry.BoRegionMiss, "regionMiss", 2, 500, false, tikverr.ErrRegionUnavailable, 0},
	{retry.BoRegionScheduling, "regionScheduling", 2, 500, false, tikverr.ErrRegionUnavailable, 0},
	{retry.BoTiKVServerBusy, "tikvServerBusy", 2000, 10000, true, tikverr.ErrTiKVServerBusy, 600000},
	{retry.BoTiKVDiskFull, "tikvDiskFull", 500, 5000, false, tikverr.ErrTiKVDiskFull, 0},
	{retry.BoRegionRecoveryInProgress, "regionRecoveryInProgress", 100, 10000, true, tikverr.ErrRegionRecoveryInProgress, 0},
	{retry.BoTiFlashServerBusy, "tiflashServerBusy", 2000, 10000, true, tikverr.ErrTiFlashServerBusy, 0},
	{retry.BoTxnNotFound, "txnNotFound", 2, 500, false, tikverr.ErrResolveLockTimeout, 0},
	{retry.BoStaleCmd, "staleCommand", 2, 1000, false, tikverr.ErrTiKVStaleCommand, 0},
	{retry.BoMaxTsNotSynced, "maxTsNotSynced", 2, 500, false, tikverr.ErrTiKVMaxTimestampNotSynced, 0},
	{retry.BoCommitTSLag, "commitTSLag", 2, 500, false, tikverr.ErrCommitTSLag, 0},
	{retry.BoMaxRegionNotInitialized, "regionNotInitialized", 2, 1000, false, tikverr.ErrRegionNotInitialized, 0},
	{retry.BoIsWitness, "isWitness", 1000, 10000, true, tikverr.ErrIsWitness, 0},
	{retry.BoTxnLockFast, "txnLockFast", -1 /* vars.BackoffLockFast */, 3000, true, tikverr.ErrResolveLockTimeout, 0},
}

func expo(base, cap, n int) int {
	return int(math.Min(float64(cap), float64(base)*math.Pow(2.0, float64(n))))
}

// model of one back-offer
type mbo struct {
	id       int
	real     *retry.Backoffer
	cancel   context.CancelFunc
	ctxID    int // index into ctx table
	parent   *mbo
	maxSleep int
	total    int
	excluded int
	sleepMS  map[string]int
	times    map[string]int
	attempts map[string]int
	errsNum  int
	dead     bool // handed to UpdateUsingForked: "make sure forked is no longer used after this"
}

type ctxNode struct {
	parent    int
	cancelled bool
}

type world struct {
	t        *rapid.T
	bos      []*mbo
	ctxs     []ctxNode
	vars     *kv.Variables
	killed   *uint32
	lockFast int
	weight   int
	// facts for evidence
	exhausted   int
	mergedAfter int
	ops         []string
}

func (w *world) ctxCancelled(i int) bool {
	for i >= 0 {
		if w.ctxs[i].cancelled {
			return true
		}
		i = w.ctxs[i].parent
	}
	return false
}

func effMax(budget, weight int) int {
	if budget > 0 && math.MaxInt32/weight >= budget {
		return budget * weight
	}
	return budget
}

func copyMap(m map[string]int) map[string]int {
	r := map[string]int{}
	for k, v := range m {
		r[k] = v
	}
	return r
}

func sameErr(got, want error) bool {
	c := errors.Cause(got)
	if c == want {
		return true
	}
	return fmt.Sprintf("%T", c) == fmt.Sprintf("%T", want) && c.Error() == want.Error()
}

func (w *world) check(b *mbo) {
	t := w.t
	r := b.real
	if r.GetTotalSleep() != b.total {
		t.Fatalf("bo#%d GetTotalSleep=%d, accounting model says %d (ops %v)", b.id, r.GetTotalSleep(), b.total, w.ops)
	}
	if r.ErrorsNum() != b.errsNum {
		t.Fatalf("bo#%d ErrorsNum=%d, model %d", b.id, r.ErrorsNum(), b.errsNum)
	}
	sum := 0
	for _, k := range kinds {
		if got := r.GetBackoffSleepMS()[k.name]; got != b.sleepMS[k.name] {
			t.Fatalf("bo#%d GetBackoffSleepMS[%s]=%d, model %d (ops %v)", b.id, k.name, got, b.sleepMS[k.name], w.ops)
		}
		if got := r.GetBackoffTimes()[k.name]; got != b.times[k.name] {
			t.Fatalf("bo#%d GetBackoffTimes[%s]=%d, model %d (ops %v)", b.id, k.name, got, b.times[k.name], w.ops)
		}
		sum += b.times[k.name]
	}
	if r.GetTotalBackoffTimes() != sum {
		t.Fatalf("bo#%d GetTotalBackoffTimes=%d, sum of per-kind times %d", b.id, r.GetTotalBackoffTimes(), sum)
	}
}

// backoff performs one Backoff call on b and checks every clause of the property that concerns a single call.
func (w *world) backoff(b *mbo, k kind, perCall int, api int) {
	t := w.t
	passed := errors.New("injected-" + k.name)
	before := b.real.GetTotalSleep()
	var err error
	switch api {
	case 0:
		perCall = -1
		err = b.real.Backoff(k.cfg, passed)
	case 1:
		err = b.real.BackoffWithCfgAndMaxSleep(k.cfg, perCall, passed)
	default: // BackoffWithMaxSleepTxnLockFast
		err = b.real.BackoffWithMaxSleepTxnLockFast(perCall, passed)
	}
	slept := b.real.GetTotalSleep() - before
	w.ops = append(w.ops, fmt.Sprintf("bo#%d.backoff(%s,max=%d)=%d", b.id, k.name, perCall, slept))

	// (1) cancelled context: returns at once with the caller's error, no sleep
	if w.ctxCancelled(b.ctxID) {
		if err == nil || errors.Cause(err) != passed {
			t.Fatalf("back-off on a cancelled context returned %v, want the caller's error", err)
		}
		if slept != 0 {
			t.Fatalf("back-off on a cancelled context slept %dms", slept)
		}
		return
	}
	// (2) budget: decided from the accounting before the call
	nonExcluded := b.total - b.excluded
	exceeded := nonExcluded >= b.maxSleep
	if k.excluded > 0 && b.excluded >= k.excluded && b.excluded >= b.maxSleep {
		exceeded = true
	}
	if b.maxSleep > 0 && exceeded {
		if err == nil {
			t.Fatalf("bo#%d: budget %dms already spent (non-excluded %d, excluded %d) but %s back-off slept again (%dms) (ops %v)",
				b.id, b.maxSleep, nonExcluded, b.excluded, k.name, slept, w.ops)
		}
		if slept != 0 {
			t.Fatalf("exhausted back-off still slept %dms", slept)
		}
		// error kind = the non-excluded kind with the largest accumulated sleep
		best := 0
		for _, kk := range kinds {
			if kk.excluded == 0 && b.sleepMS[kk.name] > best {
				best = b.sleepMS[kk.name]
			}
		}
		if best == 0 {
			if errors.Cause(err) != passed {
				t.Fatalf("exhausted with no budgeted sleep: got %v, want the caller's error", err)
			}
		} else {
			ok := false
			var names []string
			for _, kk := range kinds {
				if kk.excluded == 0 && b.sleepMS[kk.name] == best {
					names = append(names, kk.name)
					if sameErr(err, kk.err) {
						ok = true
					}
				}
			}
			if !ok {
				t.Fatalf("bo#%d exhausted: returned error %q is not the error of the kind that slept longest %v (%dms); per-kind %v",
					b.id, err, names, best, b.sleepMS)
			}
		}
		w.exhausted++
		return
	}
	// (3) the call sleeps: bounds of this one step
	a := b.attempts[k.name]
	base := k.base
	if base < 0 {
		base = w.lockFast
	}
	if base < 2 {
		base = 2
	}
	v := expo(base, k.cap, a)
	lo, hi := v, v
	if k.equal {
		lo, hi = v/2, v-1
		if v/2 == 0 {
			hi = lo
		}
	}
	if perCall >= 0 {
		if lo > perCall {
			lo = perCall
		}
		if hi > perCall {
			hi = perCall
		}
	}
	if slept < lo || slept > hi {
		t.Fatalf("bo#%d %s attempt %d slept %dms, allowed [%d,%d] (base %d cap %d per-call max %d)", b.id, k.name, a, slept, lo, hi, base, k.cap, perCall)
	}
	if slept > k.cap {
		t.Fatalf("sleep %d above the cap %d of %s", slept, k.cap, k.name)
	}
	b.attempts[k.name]++
	b.total += slept
	if k.excluded > 0 {
		b.excluded += slept
	}
	b.sleepMS[k.name] += slept
	b.times[k.name]++
	b.errsNum++
	// the budget clause itself, stated independently of the bookkeeping above
	if b.maxSleep > 0 {
		if k.excluded == 0 && b.total-b.excluded > b.maxSleep+k.cap {
			t.Fatalf("budgeted sleep %d exceeds budget %d plus one step", b.total-b.excluded, b.maxSleep)
		}
		if lim := max(k.excluded, b.maxSleep); k.excluded > 0 && b.excluded > lim+k.cap {
			t.Fatalf("excluded sleep %d exceeds its own cap %d plus one step", b.excluded, lim)
		}
	}
	// (4) killed: the call reports the interruption
	if *w.killed != 0 {
		var ke tikverr.ErrQueryInterruptedWithSignal
		if err == nil || !errors.As(err, &ke) || ke.Signal != *w.killed {
			t.Fatalf("killed query: back-off returned %v", err)
		}
		return
	}
	if err != nil {
		t.Fatalf("bo#%d %s back-off within budget (non-excluded %d < %d) failed: %v", b.id, k.name, nonExcluded, b.maxSleep, err)
	}
}

func TestBackoffModel(t *testing.T) {
	util.EnableFailpoints()
	if err := failpoint.Enable("tikvclient/fastBackoffBySkipSleep", "return"); err != nil {
		t.Fatal(err)
	}
	defer failpoint.Disable("tikvclient/fastBackoffBySkipSleep")
	rec := ev.For(t, "C20", "rapid state machine over a tree of Backoffers (budget x weight x lock-fast base drawn; ops: Backoff/BackoffWithCfgAndMaxSleep/BackoffWithMaxSleepTxnLockFast on all 17 exported kinds incl. the budget-excluded tikvServerBusy, bursts, Clone, Fork, UpdateUsingForked on arbitrary pairs, Reset, ResetMaxSleep, cancel of any context, kill/unkill), sleeps virtualised by the fastBackoffBySkipSleep failpoint; oracle: accounting model + per-step bounds + budget clause + error-kind clause, all getters compared after every step; non-trivial = budget exhausted at least once or a fork merged back after it slept; distinct = distinct op sequences")
	rapid.Check(t, func(t *rapid.T) {
		rand.Seed(ev.Seed()) // jitter comes from the global math/rand: pin it per case so that shrinking and replay are deterministic
		w := &world{t: t}
		var killed uint32
		w.killed = &killed
		w.weight = rapid.SampledFrom([]int{1, 2, 3, 10}).Draw(t, "weight")
		w.lockFast = rapid.SampledFrom([]int{0, 1, 2, 10, 100}).Draw(t, "lockfast")
		w.vars = &kv.Variables{BackoffLockFast: w.lockFast, BackOffWeight: w.weight, Killed: w.killed}
		budget := rapid.SampledFrom([]int{1, 3, 40, 100, 500, 2000, 20000, 100000, math.MaxInt32 / w.weight, math.MaxInt32/w.weight + 1, math.MaxInt32}).Draw(t, "budget")
		ctx, cancel := context.WithCancel(context.Background())
		defer cancel()
		w.ctxs = append(w.ctxs, ctxNode{parent: -1})
		root := &mbo{id: 0, real: retry.NewBackofferWithVars(ctx, budget, w.vars), cancel: cancel, ctxID: 0, maxSleep: effMax(budget, w.weight),
			sleepMS: map[string]int{}, times: map[string]int{}, attempts: map[string]int{}}
		w.bos = append(w.bos, root)
		w.ops = append(w.ops, fmt.Sprintf("new(budget=%d,weight=%d,lockfast=%d)", budget, w.weight, w.lockFast))

		live := func() *mbo {
			var l []*mbo
			for _, b := range w.bos {
				if !b.dead {
					l = append(l, b)
				}
			}
			return l[rapid.IntRange(0, len(l)-1).Draw(t, "bo")]
		}
		drawKind := func() kind {
			// bias to a few kinds so that per-kind maxima compete, and to the excluded kind
			if rapid.IntRange(0, 2).Draw(t, "bias") == 0 {
				return kinds[rapid.SampledFrom([]int{0, 2, 4, 6, 16}).Draw(t, "hot")]
			}
			return kinds[rapid.IntRange(0, len(kinds)-1).Draw(t, "kind")]
		}
		t.Repeat(map[string]func(*rapid.T){
			"backoff": func(t *rapid.T) {
				b := live()
				api := rapid.IntRange(0, 2).Draw(t, "api")
				k := drawKind()
				if api == 2 {
					k = kinds[16]
				}
				per := rapid.SampledFrom([]int{-1, 0, 1, 5, 50, 300, 5000, 100000}).Draw(t, "percall")
				w.backoff(b, k, per, api)
			},
			"burst": func(t *rapid.T) {
				b := live()
				k := drawKind()
				n := rapid.IntRange(2, 90).Draw(t, "n")
				for i := 0; i < n; i++ {
					w.backoff(b, k, -1, 0)
				}
			},
			"clone": func(t *rapid.T) {
				if len(w.bos) >= 8 {
					t.Skip()
				}
				b := live()
				c := &mbo{id: len(w.bos), real: b.real.Clone(), ctxID: b.ctxID, parent: b.parent, maxSleep: b.maxSleep, total: b.total, excluded: b.excluded,
					sleepMS: copyMap(b.sleepMS), times: copyMap(b.times), attempts: map[string]int{}, errsNum: b.errsNum}
				w.bos = append(w.bos, c)
				w.ops = append(w.ops, fmt.Sprintf("bo#%d=bo#%d.clone", c.id, b.id))
			},
			"fork": func(t *rapid.T) {
				if len(w.bos) >= 8 {
					t.Skip()
				}
				b := live()
				f, cancel := b.real.Fork()
				w.ctxs = append(w.ctxs, ctxNode{parent: b.ctxID})
				c := &mbo{id: len(w.bos), real: f, cancel: cancel, ctxID: len(w.ctxs) - 1, parent: b, maxSleep: b.maxSleep, total: b.total, excluded: b.excluded,
					sleepMS: copyMap(b.sleepMS), times: copyMap(b.times), attempts: map[string]int{}, errsNum: b.errsNum}
				w.bos = append(w.bos, c)
				w.ops = append(w.ops, fmt.Sprintf("bo#%d=bo#%d.fork", c.id, b.id))
			},
			"merge": func(t *rapid.T) {
				b, f := live(), live()
				if b == f {
					t.Skip()
				}
				desc := false
				for p := f.parent; p != nil; p = p.parent {
					if p == b {
						desc = true
					}
				}
				b.real.UpdateUsingForked(f.real)
				w.ops = append(w.ops, fmt.Sprintf("bo#%d.merge(bo#%d desc=%v)", b.id, f.id, desc))
				if desc {
					if f.total > 0 && f.errsNum > b.errsNum {
						w.mergedAfter++
					}
					b.total, b.excluded, b.errsNum = f.total, f.excluded, f.errsNum
					b.sleepMS, b.times = copyMap(f.sleepMS), copyMap(f.times)
					f.dead = true // documented: forked must not be used afterwards
				}
			},
			"mergeNil": func(t *rapid.T) {
				b := live()
				b.real.UpdateUsingForked(nil)
			},
			"reset": func(t *rapid.T) {
				b := live()
				b.real.Reset()
				b.total, b.excluded, b.attempts = 0, 0, map[string]int{}
				w.ops = append(w.ops, fmt.Sprintf("bo#%d.reset", b.id))
			},
			"resetMax": func(t *rapid.T) {
				b := live()
				n := rapid.SampledFrom([]int{1, 10, 300, 5000, 40000}).Draw(t, "newbudget")
				b.real.ResetMaxSleep(n)
				b.total, b.excluded, b.attempts = 0, 0, map[string]int{}
				b.maxSleep = effMax(n, w.weight)
				w.ops = append(w.ops, fmt.Sprintf("bo#%d.resetMax(%d)", b.id, n))
			},
			"cancel": func(t *rapid.T) {
				b := live()
				if b.cancel == nil {
					t.Skip()
				}
				b.cancel()
				w.ctxs[b.ctxID].cancelled = true
				w.ops = append(w.ops, fmt.Sprintf("bo#%d.cancel", b.id))
			},
			"kill": func(t *rapid.T) {
				*w.killed = uint32(rapid.SampledFrom([]int{0, 0, 1, 3}).Draw(t, "signal"))
				w.ops = append(w.ops, fmt.Sprintf("kill=%d", *w.killed))
			},
			"": func(t *rapid.T) {
				for _, b := range w.bos {
					if !b.dead {
						w.check(b)
					}
				}
			},
		})
		for _, b := range w.bos {
			if b.cancel != nil {
				b.cancel()
			}
		}
		shape := make([]string, len(w.ops))
		for i, o := range w.ops {
			if j := strings.IndexByte(o, '='); j > 0 && strings.Contains(o, "backoff") {
				o = o[:j]
			}
			shape[i] = o
		}
		classes := []string{}
		if w.exhausted > 0 {
			classes = append(classes, "exhausted")
		}
		if w.mergedAfter > 0 {
			classes = append(classes, "fork-merged-after-sleep")
		}
		if len(w.ops) > 12 {
			w.ops = append(w.ops[:12:12], fmt.Sprintf("... %d more", len(w.ops)-12))
		}
		rec.Case(strings.Join(shape, ";"), w.exhausted > 0 || w.mergedAfter > 0, classes, w.ops)
	})
}

// TestBudgetSweep: every kind alone against every budget of a grid, run to exhaustion (deterministic enumeration).
func TestBudgetSweep(t *testing.T) {
	util.EnableFailpoints()
	if err := failpoint.Enable("tikvclient/fastBackoffBySkipSleep", "return"); err != nil {
		t.Fatal(err)
	}
	defer failpoint.Disable("tikvclient/fastBackoffBySkipSleep")
	rec := ev.For(t, "C20", "enumeration: each of the 17 kinds (optionally preceded by a second kind that slept more or less) x budget grid x weight {1,2} x per-call maximum grid, backed off until the back-offer refuses; oracle: total budgeted sleep < budget + one cap, refusal error = error of the kind that slept longest, each step within [floor,cap]; non-trivial = always (each run ends in exhaustion); distinct = (kind, other kind, budget, weight, per-call max)")
	budgets := []int{1, 7, 99, 100, 101, 1999, 2000, 5000, 40000}
	pers := []int{-1, 0, 3, 250}
	for _, k := range kinds {
		for oi := -1; oi < len(kinds); oi += 4 {
			for _, budget := range budgets {
				for _, weight := range []int{1, 2} {
					for _, per := range pers {
						var killed uint32
						vars := &kv.Variables{BackoffLockFast: 10, BackOffWeight: weight, Killed: &killed}
						b := retry.NewBackofferWithVars(context.Background(), budget, vars)
						maxSleep := budget * weight
						sleepBy := map[string]int{}
						if oi >= 0 && kinds[oi].excluded == 0 && kinds[oi].name != k.name {
							if err := b.Backoff(kinds[oi].cfg, errors.New("x")); err != nil {
								t.Fatalf("first back-off failed: %v", err)
							}
							sleepBy[kinds[oi].name] = b.GetTotalSleep()
						}
						steps := 0
						for {
							before := b.GetTotalSleep()
							nonExcl := before - sleepBy["tikvServerBusy"]
							err := b.BackoffWithCfgAndMaxSleep(k.cfg, per, errors.New("y"))
							if err != nil {
								exhaustedOK := nonExcl >= maxSleep || (k.excluded > 0 && sleepBy[k.name] >= k.excluded && sleepBy[k.name] >= maxSleep)
								if !exhaustedOK {
									t.Fatalf("%s refused at budgeted sleep %d < budget %d: %v", k.name, nonExcl, maxSleep, err)
								}
								best, bestName := 0, ""
								for n, v := range sleepBy {
									if n != "tikvServerBusy" && v > best {
										best, bestName = v, n
									}
								}
								if best > 0 {
									ok := false
									for _, kk := range kinds {
										if sleepBy[kk.name] == best && kk.excluded == 0 && sameErr(err, kk.err) {
											ok = true
										}
									}
									if !ok {
										t.Fatalf("%s exhausted (budget %d): error %q is not that of the longest sleeper %s (%v)", k.name, maxSleep, err, bestName, sleepBy)
									}
								}
								break
							}
							d := b.GetTotalSleep() - before
							if d > k.cap || (per >= 0 && d > per) {
								t.Fatalf("%s slept %d above cap %d / per-call max %d", k.name, d, k.cap, per)
							}
							sleepBy[k.name] += d
							if k.excluded == 0 && nonExcl >= maxSleep {
								t.Fatalf("%s slept although the budget %d was spent (%d)", k.name, maxSleep, nonExcl)
							}
							steps++
							if (per == 0 && steps > 50) || (k.excluded > 0 && steps > 300) {
								break // zero-length sleeps never consume budget; the excluded kind needs 10 min of virtual sleep (covered by the model test)
							}
							if steps > 200000 {
								t.Fatalf("%s never exhausted budget %d", k.name, maxSleep)
							}
						}
						rec.Case(fmt.Sprintf("%s/%d/%d/%d/%d", k.name, oi, budget, weight, per), true, []string{"kind=" + k.name},
							map[string]any{"kind": k.name, "budget": budget, "weight": weight, "per_call_max": per, "steps": steps, "sleep_by_kind": sortedMap(sleepBy)})
					}
				}
			}
		}
	}
	rec.SetExhaustive(true)
}

func sortedMap(m map[string]int) []string {
	var out []string
	for k, v := range m {
		out = append(out, fmt.Sprintf("%s=%d", k, v))
	}
	sort.Strings(out)
	return out
}
