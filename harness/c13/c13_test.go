// Package c13 decides property C13: issued timestamps strictly increase in real-time
// order, the cached (low-resolution) timestamp never decreases nor runs ahead of PD,
// expiry answers are mutually consistent, commit-wait yields a ts above the
// constraint or fails, and read-ts validation accepts/rejects against what PD issued.
package c13

import (
	"context"
	"fmt"
	"math"
	"math/rand"
	"sort"
	"strings"
	"sync"
	"sync/atomic"
	"testing"
	"time"

	"github.com/pingcap/failpoint"
	"github.com/tikv/client-go/v2/config/retry"
	"github.com/tikv/client-go/v2/oracle"
	"github.com/tikv/client-go/v2/oracle/oracles"
	"github.com/tikv/client-go/v2/testutils"
	"github.com/tikv/client-go/v2/tikv"
	"github.com/tikv/client-go/v2/util"
	"github.com/tikv/client-go/v2/verif/ev"
	_ "github.com/tikv/client-go/v2/verif/quiet"
	pd "github.com/tikv/pd/client"
	"github.com/tikv/pd/client/clients/tso"
	"github.com/tikv/pd/client/pkg/caller"
	"pgregory.net/rapid"
)

// ---------------------------------------------------------------- scripted PD

const basePhysical = int64(1_700_000_000_000)

type pdReq struct {
	id       int
	ts       uint64
	physical int64
	logical  int64
	release  chan struct{}
	async    bool
}

type scriptedPD struct {
	pd.Client
	mu      sync.Mutex
	n       int64
	parked  []*pdReq
	auto    atomic.Bool // answer immediately (stress mode / initialisation)
	jitter  atomic.Bool
	events  chan string
	maxIss  atomic.Uint64 // largest ts issued so far
	clock   *atomic.Int64 // global event sequence
	issued  atomic.Int64
	delayRn *rand.Rand
}

func (p *scriptedPD) WithCallerComponent(caller.Component) pd.Client { return p }

func (p *scriptedPD) arrive(async bool) *pdReq {
	p.mu.Lock()
	p.n++
	n := p.n
	r := &pdReq{id: int(n), physical: basePhysical + n/2, logical: n, release: make(chan struct{}), async: async}
	r.ts = oracle.ComposeTS(r.physical, r.logical)
	// the value is assigned at request arrival; it is "issued" from now on
	for {
		old := p.maxIss.Load()
		if r.ts <= old || p.maxIss.CompareAndSwap(old, r.ts) {
			break
		}
	}
	p.issued.Add(1)
	if p.auto.Load() {
		close(r.release)
	} else {
		p.parked = append(p.parked, r)
	}
	p.mu.Unlock()
	if p.events != nil {
		select {
		case p.events <- "pd-arrival":
		default:
		}
	}
	return r
}

func (p *scriptedPD) GetTS(ctx context.Context) (int64, int64, error) {
	r := p.arrive(false)
	<-r.release
	if p.jitter.Load() {
		time.Sleep(time.Duration(rand.Intn(200)) * time.Microsecond)
	}
	return r.physical, r.logical, nil
}

type fut struct {
	r *pdReq
	p *scriptedPD
}

func (f fut) Wait() (int64, int64, error) {
	<-f.r.release
	if f.p.jitter.Load() {
		time.Sleep(time.Duration(rand.Intn(200)) * time.Microsecond)
	}
	return f.r.physical, f.r.logical, nil
}

func (p *scriptedPD) GetTSAsync(ctx context.Context) tso.TSFuture { return fut{p.arrive(true), p} }

func (p *scriptedPD) releaseAt(i int) {
	p.mu.Lock()
	r := p.parked[i]
	p.parked = append(p.parked[:i], p.parked[i+1:]...)
	p.mu.Unlock()
	close(r.release)
}

func (p *scriptedPD) nParked() int {
	p.mu.Lock()
	defer p.mu.Unlock()
	return len(p.parked)
}

// ---------------------------------------------------------------- call log

type call struct {
	Caller     int    `json:"caller"`
	Kind       string `json:"kind"`
	Arg        uint64 `json:"arg,omitempty"`
	Stale      bool   `json:"stale,omitempty"`
	Start, End int64  `json:"-"`
	TS         uint64 `json:"ts,omitempty"`
	Err        string `json:"err,omitempty"`
	IssBefore  uint64 `json:"-"`
	IssAfter   uint64 `json:"-"`
	done       bool
}

func (c *call) String() string {
	return fmt.Sprintf("#%d %s(arg=%d,stale=%v)@[%d,%d] -> ts=%d err=%q", c.Caller, c.Kind, c.Arg, c.Stale, c.Start, c.End, c.TS, c.Err)
}

var opt = &oracle.Option{TxnScope: oracle.GlobalTxnScope}

func perform(o oracle.Oracle, p *scriptedPD, clock *atomic.Int64, c *call) {
	ctx := context.Background()
	c.IssBefore = p.maxIss.Load()
	c.Start = clock.Add(1)
	var err error
	switch c.Kind {
	case "get":
		c.TS, err = o.GetTimestamp(ctx, opt)
	case "async":
		f := o.GetTimestampAsync(ctx, opt)
		c.TS, err = f.Wait()
	case "lowres":
		c.TS, err = o.GetLowResolutionTimestamp(ctx, opt)
	case "lowresAsync":
		c.TS, err = o.GetLowResolutionTimestampAsync(ctx, opt).Wait()
	case "validate":
		err = o.ValidateReadTS(ctx, c.Arg, c.Stale, opt)
	case "stale":
		c.TS, err = o.GetStaleTimestamp(ctx, oracle.GlobalTxnScope, c.Arg)
	case "setInterval":
		err = o.SetLowResolutionTimestampUpdateInterval(time.Duration(int64(c.Arg)))
	}
	c.End = clock.Add(1)
	c.IssAfter = p.maxIss.Load()
	if err != nil {
		c.Err = err.Error()
	}
	c.done = true
}

// checkLog evaluates O1, O2, O4 over a finished log (pure function).
func checkLog(calls []*call, initialTS uint64) error {
	var gets, lows []*call
	for _, c := range calls {
		if !c.done {
			return fmt.Errorf("call never returned: %s", c)
		}
		switch c.Kind {
		case "get", "async":
			if c.Err != "" {
				return fmt.Errorf("timestamp fetch failed: %s", c)
			}
			gets = append(gets, c)
		case "lowres", "lowresAsync":
			if c.Err != "" {
				return fmt.Errorf("low-resolution read failed: %s", c)
			}
			lows = append(lows, c)
		}
	}
	// O1: strictly increasing in real-time order, never the same ts twice
	seen := map[uint64]*call{}
	for _, a := range gets {
		if b, dup := seen[a.TS]; dup {
			return fmt.Errorf("two calls returned the same timestamp: %s and %s", a, b)
		}
		seen[a.TS] = a
		for _, b := range gets {
			if a.End < b.Start && a.TS >= b.TS {
				return fmt.Errorf("timestamps not increasing in real-time order: %s returned before %s started", a, b)
			}
		}
	}
	// O2: cached ts never exceeds what PD had issued when the read returned, never decreases in real-time order,
	// and is at least every ts delivered by a call that had returned before the read started
	for _, l := range lows {
		if l.TS > l.IssAfter {
			return fmt.Errorf("low-resolution ts %d exceeds the largest ts PD had issued (%d): %s", l.TS, l.IssAfter, l)
		}
		for _, m := range lows {
			if l.End < m.Start && l.TS > m.TS {
				return fmt.Errorf("low-resolution ts decreased: %s then %s", l, m)
			}
		}
		floor := uint64(0)
		for _, g := range gets {
			if g.End < l.Start && g.TS > floor {
				floor = g.TS
			}
		}
		if l.TS < floor {
			return fmt.Errorf("low-resolution ts %d is older than ts %d delivered by a call that had already returned: %s", l.TS, floor, l)
		}
		if l.TS < initialTS {
			return fmt.Errorf("low-resolution ts %d below the initial ts %d", l.TS, initialTS)
		}
	}
	// O4: read-ts validation
	for _, c := range calls {
		if c.Kind != "validate" {
			continue
		}
		switch {
		case c.Arg == math.MaxUint64:
			if c.Stale != (c.Err != "") {
				return fmt.Errorf("validation of the max ts: stale reads must be refused, others accepted: %s", c)
			}
		case c.Arg >= math.MaxInt64:
			if c.Err == "" {
				return fmt.Errorf("validation accepted a ts in [MaxInt64, MaxUint64): %s", c)
			}
		case c.Arg <= c.IssBefore:
			if c.Err != "" {
				return fmt.Errorf("validation rejected ts %d although PD had issued %d before the call: %s", c.Arg, c.IssBefore, c)
			}
		case c.Arg > c.IssAfter:
			if c.Err == "" {
				return fmt.Errorf("validation accepted ts %d although PD has only issued up to %d when the call ended: %s", c.Arg, c.IssAfter, c)
			}
		}
	}
	return nil
}

// ---------------------------------------------------------------- (a) owned schedule

type callerG struct {
	cmds chan *call
	busy *call
}

func TestOwnedSchedule(t *testing.T) {
	rec := ev.For(t, "C13", "pd oracle over a scripted PD that assigns the ts at request arrival and releases responses in a rapid-drawn order (the harness owns the order): 1..6 caller goroutines issue GetTimestamp / GetTimestampAsync+Wait / GetLowResolutionTimestamp(+Async) / ValidateReadTS(ts around issued values, stale flag) / GetStaleTimestamp / SetLowResolutionTimestampUpdateInterval, background updater disabled; between steps IsExpired/UntilExpired are probed with lock ts and ttl around the cached ts; oracle: issuance log (O1 real-time order, O2 cached ts bounds/monotone/final value, O3 IsExpired <=> UntilExpired<=0, O4 validation vs issued-before/issued-after); non-trivial = >=2 callers and >=1 response released out of issue order; distinct = (kind sequence, release order)")
	oracles.EnableTSValidation.Store(true)
	rapid.Check(t, func(t *rapid.T) {
		clock := &atomic.Int64{}
		p := &scriptedPD{events: make(chan string, 64), clock: clock}
		p.auto.Store(true)
		o, err := oracles.NewPdOracle(p, &oracles.PDOracleOptions{UpdateInterval: time.Hour, NoUpdateTS: true})
		if err != nil {
			t.Fatalf("VERIF-INFRA: %v", err)
		}
		defer o.Close()
		p.auto.Store(false)
		initial, _ := o.GetLowResolutionTimestamp(context.Background(), opt)
		nCallers := rapid.IntRange(1, 6).Draw(t, "callers")
		callers := make([]*callerG, nCallers)
		done := make(chan int, 64)
		for i := range callers {
			c := &callerG{cmds: make(chan *call)}
			callers[i] = c
			go func(i int, c *callerG) {
				for cmd := range c.cmds {
					perform(o, p, clock, cmd)
					done <- i
				}
			}(i, c)
		}
		defer func() {
			for _, c := range callers {
				close(c.cmds)
			}
		}()
		var log []*call
		var sched []string
		outOfOrder := false
		settle := func() {
			// wait until nothing moves for a short while (only shapes the schedule, never a verdict)
			timer := time.NewTimer(8 * time.Millisecond)
			defer timer.Stop()
			for {
				select {
				case i := <-done:
					callers[i].busy = nil
					timer.Reset(300 * time.Microsecond)
				case <-p.events:
					timer.Reset(300 * time.Microsecond)
				case <-timer.C:
					return
				}
			}
		}
		fail := func(f string, a ...any) {
			var ls []string
			for _, c := range log {
				ls = append(ls, c.String())
			}
			t.Fatalf(f+"\n  schedule: %v\n  log:\n   %s", append(a, sched, strings.Join(ls, "\n   "))...)
		}
		probeExpiry := func() {
			last, _ := o.GetLowResolutionTimestamp(context.Background(), opt)
			lp := oracle.ExtractPhysical(last)
			lockTS := oracle.ComposeTS(lp+int64(rapid.IntRange(-5, 5).Draw(t, "lockdelta")), int64(rapid.IntRange(0, 9).Draw(t, "locklogical")))
			ttl := uint64(rapid.IntRange(0, 8).Draw(t, "ttl"))
			exp := o.IsExpired(lockTS, ttl, opt)
			until := o.UntilExpired(lockTS, ttl, opt)
			if exp != (until <= 0) {
				fail("IsExpired(lock physical %d, ttl %d) = %v but UntilExpired = %d (cached physical %d)", oracle.ExtractPhysical(lockTS), ttl, exp, until, lp)
			}
			if want := oracle.ExtractPhysical(lockTS) + int64(ttl) - lp; until != want {
				fail("UntilExpired = %d, want %d", until, want)
			}
		}
		t.Repeat(map[string]func(*rapid.T){
			"call": func(t *rapid.T) {
				var idle []int
				for i, c := range callers {
					if c.busy == nil {
						idle = append(idle, i)
					}
				}
				if len(idle) == 0 {
					t.Skip()
				}
				i := idle[rapid.IntRange(0, len(idle)-1).Draw(t, "caller")]
				c := &call{Caller: i, Kind: rapid.SampledFrom([]string{"get", "get", "async", "async", "lowres", "lowresAsync", "validate", "validate", "stale", "setInterval"}).Draw(t, "kind")}
				switch c.Kind {
				case "validate":
					iss := p.maxIss.Load()
					switch rapid.IntRange(0, 5).Draw(t, "which") {
					case 0:
						c.Arg = math.MaxUint64
					case 1:
						c.Arg = math.MaxInt64 + uint64(rapid.IntRange(0, 5).Draw(t, "d"))
					case 2: // issued before
						c.Arg = iss - uint64(rapid.IntRange(0, 3).Draw(t, "d"))
					default: // slightly in the future of what PD issued so far
						c.Arg = iss + uint64(rapid.IntRange(1, 6).Draw(t, "d"))
					}
					c.Stale = rapid.Bool().Draw(t, "stale")
				case "stale":
					c.Arg = uint64(rapid.IntRange(0, 3).Draw(t, "prev"))
				case "setInterval":
					c.Arg = uint64(rapid.SampledFrom([]int64{int64(time.Millisecond), int64(time.Second), int64(2 * time.Second), int64(time.Hour)}).Draw(t, "interval"))
				}
				callers[i].busy = c
				log = append(log, c)
				sched = append(sched, fmt.Sprintf("call#%d:%s", i, c.Kind))
				callers[i].cmds <- c
				settle()
			},
			"release": func(t *rapid.T) {
				n := p.nParked()
				if n == 0 {
					t.Skip()
				}
				i := rapid.IntRange(0, n-1).Draw(t, "which")
				if i != 0 {
					outOfOrder = true
				}
				sched = append(sched, fmt.Sprintf("release[%d/%d]", i, n))
				p.releaseAt(i)
				settle()
			},
			"probeExpiry": func(t *rapid.T) { probeExpiry() },
		})
		// drain: release everything in a drawn order
		for guard := 0; guard < 1000; guard++ {
			busy := 0
			for _, c := range callers {
				if c.busy != nil {
					busy++
				}
			}
			n := p.nParked()
			if busy == 0 && n == 0 {
				break
			}
			if n > 0 {
				i := rapid.IntRange(0, n-1).Draw(t, "drain")
				if i != 0 {
					outOfOrder = true
				}
				p.releaseAt(i)
			}
			settle()
		}
		for _, c := range callers {
			if c.busy != nil {
				fail("a call is still blocked although PD answered every request: %s", c.busy)
			}
		}
		if err := checkLog(log, initial); err != nil {
			fail("%v", err)
		}
		// quiescence: the cached ts equals the largest delivered ts
		maxDelivered := initial
		for _, c := range log {
			if (c.Kind == "get" || c.Kind == "async") && c.TS > maxDelivered {
				maxDelivered = c.TS
			}
		}
		final, _ := o.GetLowResolutionTimestamp(context.Background(), opt)
		if final > p.maxIss.Load() {
			fail("cached ts %d exceeds the largest issued ts %d", final, p.maxIss.Load())
		}
		if final < maxDelivered {
			fail("after quiescence the cached ts %d is below the largest delivered ts %d", final, maxDelivered)
		}
		probeExpiry()
		var kinds []string
		for _, c := range log {
			kinds = append(kinds, c.Kind)
		}
		s := sched
		if len(s) > 16 {
			s = append(s[:16:16], fmt.Sprintf("... %d more", len(sched)-16))
		}
		rec.Case(strings.Join(sched, ","), nCallers >= 2 && outOfOrder, []string{fmt.Sprintf("callers=%d", nCallers), fmt.Sprintf("out-of-order=%v", outOfOrder)}, s)
	})
}

// ---------------------------------------------------------------- (b) free-running stress

func TestStress(t *testing.T) {
	rec := ev.For(t, "C13", "free-running stress of the pd oracle: PD answers at once with random sub-ms jitter, background updater enabled with a short interval (incl. adaptive >500ms configuration with stale reads), 2..8 goroutines x random calls; oracle: the same log checker (O1/O2/O4) plus expiry consistency sandwich; schedules are the runtime's; non-trivial = always (>=2 goroutines); distinct = (seed, round)")
	oracles.EnableTSValidation.Store(true)
	rounds := ev.Scale(12, 120)
	for r := 0; r < rounds; r++ {
		rng := rand.New(rand.NewSource(ev.Seed()*7919 + int64(r)))
		clock := &atomic.Int64{}
		p := &scriptedPD{clock: clock}
		p.auto.Store(true)
		p.jitter.Store(true)
		interval := []time.Duration{time.Millisecond, 3 * time.Millisecond, 700 * time.Millisecond}[rng.Intn(3)]
		o, err := oracles.NewPdOracle(p, &oracles.PDOracleOptions{UpdateInterval: interval})
		if err != nil {
			t.Fatalf("VERIF-INFRA: %v", err)
		}
		initial, _ := o.GetLowResolutionTimestamp(context.Background(), opt)
		nG := 2 + rng.Intn(7)
		var mu sync.Mutex
		var log []*call
		var wg sync.WaitGroup
		errCh := make(chan error, nG)
		for g := 0; g < nG; g++ {
			wg.Add(1)
			go func(g int, seed int64) {
				defer wg.Done()
				rng := rand.New(rand.NewSource(seed))
				for i := 0; i < 60; i++ {
					c := &call{Caller: g, Kind: []string{"get", "async", "lowres", "lowresAsync", "validate", "stale", "setInterval"}[rng.Intn(7)]}
					switch c.Kind {
					case "validate":
						iss := p.maxIss.Load()
						if rng.Intn(2) == 0 {
							c.Arg = iss - uint64(rng.Intn(3))
						} else {
							c.Arg = iss + uint64(1+rng.Intn(40))
						}
						c.Stale = rng.Intn(2) == 0
					case "stale":
						c.Arg = uint64(rng.Intn(3))
					case "setInterval":
						c.Arg = uint64([]time.Duration{time.Millisecond, 2 * time.Millisecond, 600 * time.Millisecond}[rng.Intn(3)])
					}
					perform(o, p, clock, c)
					mu.Lock()
					log = append(log, c)
					mu.Unlock()
					// expiry sandwich (sound under a monotone cached ts)
					last, _ := o.GetLowResolutionTimestamp(context.Background(), opt)
					lock := oracle.ComposeTS(oracle.ExtractPhysical(last)+int64(rng.Intn(7)-3), 0)
					ttl := uint64(rng.Intn(4))
					u1 := o.UntilExpired(lock, ttl, opt)
					e := o.IsExpired(lock, ttl, opt)
					u2 := o.UntilExpired(lock, ttl, opt)
					if (e && u2 > 0) || (!e && u1 <= 0) {
						errCh <- fmt.Errorf("expiry answers inconsistent: UntilExpired=%d, IsExpired=%v, UntilExpired=%d", u1, e, u2)
						return
					}
				}
			}(g, rng.Int63())
		}
		wg.Wait()
		o.Close()
		select {
		case err := <-errCh:
			t.Fatalf("round %d: %v", r, err)
		default:
		}
		sort.Slice(log, func(i, j int) bool { return log[i].Start < log[j].Start })
		if err := checkLog(log, initial); err != nil {
			t.Fatalf("round %d (goroutines %d, interval %v): %v", r, nG, interval, err)
		}
		rec.Case(fmt.Sprintf("%d/%d", ev.Seed(), r), true, []string{fmt.Sprintf("goroutines=%d", nG), fmt.Sprintf("interval=%v", interval)},
			map[string]any{"goroutines": nG, "update_interval": interval.String(), "calls": len(log), "pd_requests": p.issued.Load()})
	}
}

// ---------------------------------------------------------------- (c) local and mock oracles

func TestLocalAndMock(t *testing.T) {
	rec := ev.For(t, "C13", "local oracle and mock oracle (real clock): 1..8 concurrent callers x GetTimestamp/Async; oracle: strict increase in real-time order + no duplicates, and the expiry sandwich u1:=UntilExpired; e:=IsExpired; u2:=UntilExpired => (e -> u2<=0) and (!e -> u1>0) with lock ts/ttl drawn around now (incl. the sub-millisecond window before expiry); non-trivial = >=2 callers; distinct = (oracle, callers, seed, round)")
	rounds := ev.Scale(20, 200)
	for r := 0; r < rounds; r++ {
		for _, which := range []string{"local", "mock"} {
			var o oracle.Oracle
			if which == "local" {
				o = oracles.NewLocalOracle()
			} else {
				o = &oracles.MockOracle{}
			}
			rng := rand.New(rand.NewSource(ev.Seed()*104729 + int64(r)))
			nG := 1 + rng.Intn(8)
			clock := &atomic.Int64{}
			var mu sync.Mutex
			var log []*call
			var wg sync.WaitGroup
			errCh := make(chan error, nG)
			for g := 0; g < nG; g++ {
				wg.Add(1)
				go func(g int, seed int64) {
					defer wg.Done()
					rng := rand.New(rand.NewSource(seed))
					for i := 0; i < 150; i++ {
						c := &call{Caller: g, Kind: "get"}
						c.Start = clock.Add(1)
						var err error
						if rng.Intn(2) == 0 {
							c.TS, err = o.GetTimestamp(context.Background(), opt)
						} else {
							c.TS, err = o.GetTimestampAsync(context.Background(), opt).Wait()
						}
						c.End = clock.Add(1)
						c.done = true
						c.IssAfter = math.MaxUint64
						if err != nil {
							c.Err = err.Error()
						}
						mu.Lock()
						log = append(log, c)
						mu.Unlock()
						// expiry sandwich around "now": lock ts = now - d ms, ttl = d ms (+-1), so the expiry instant is close
						d := rng.Intn(3)
						lock := oracle.GoTimeToTS(time.Now().Add(-time.Duration(d) * time.Millisecond))
						ttl := uint64(d + rng.Intn(3))
						u1 := o.UntilExpired(lock, ttl, opt)
						e := o.IsExpired(lock, ttl, opt)
						u2 := o.UntilExpired(lock, ttl, opt)
						if (e && u2 > 0) || (!e && u1 <= 0) {
							errCh <- fmt.Errorf("%s oracle: expiry answers inconsistent: UntilExpired=%d, then IsExpired=%v, then UntilExpired=%d (a lock is expired exactly when its remaining time is not positive)", which, u1, e, u2)
							return
						}
					}
				}(g, rng.Int63())
			}
			wg.Wait()
			select {
			case err := <-errCh:
				t.Fatalf("round %d: %v", r, err)
			default:
			}
			if err := checkLog(log, 0); err != nil {
				t.Fatalf("%s oracle, %d callers: %v", which, nG, err)
			}
			rec.Case(fmt.Sprintf("%s/%d/%d/%d", which, nG, ev.Seed(), r), nG >= 2, []string{"oracle=" + which}, map[string]any{"oracle": which, "callers": nG, "calls": len(log)})
		}
	}
}

// ---------------------------------------------------------------- (d) commit-wait

type scriptedOracle struct {
	oracle.Oracle
	seq   []uint64
	i     int
	calls int
}

func (s *scriptedOracle) GetTimestamp(ctx context.Context, _ *oracle.Option) (uint64, error) {
	s.calls++
	if s.i < len(s.seq) {
		v := s.seq[s.i]
		s.i++
		return v, nil
	}
	return s.seq[len(s.seq)-1] + uint64(s.calls), nil
}

func TestCommitWait(t *testing.T) {
	util.EnableFailpoints()
	if err := failpoint.Enable("tikvclient/fastBackoffBySkipSleep", "return"); err != nil {
		t.Fatal(err)
	}
	defer failpoint.Disable("tikvclient/fastBackoffBySkipSleep")
	rec := ev.For(t, "C13", "KVTxn.GetTimestampForCommit under SetCommitWaitUntilTSO: a scripted oracle returns a drawn increasing sequence of timestamps around the constraint (below / equal / just above / far above), drawn wait time-outs (0, shorter and longer than the lag), virtual back-off sleeps; oracle: a returned ts is strictly greater than the constraint and is the last ts the oracle handed out; no wait and no extra fetch when the first ts already exceeds the constraint; zero time-out or lag above the time-out fails; when the second ts exceeds the constraint within the time-out the call succeeds with it; non-trivial = first ts <= constraint; distinct = (sequence relative to constraint, time-out class)")
	client, cluster, pdClient, err := testutils.NewMockTiKV("", nil)
	if err != nil {
		t.Fatalf("VERIF-INFRA: %v", err)
	}
	testutils.BootstrapWithSingleStore(cluster)
	store, err := tikv.NewTestTiKVStore(client, pdClient, nil, nil, 0)
	if err != nil {
		t.Fatalf("VERIF-INFRA: %v", err)
	}
	defer store.Close()
	orig := store.GetOracle()
	rapid.Check(t, func(t *rapid.T) {
		basePhys := int64(1_800_000_000_000)
		constraintPhys := basePhys + int64(rapid.IntRange(0, 3000).Draw(t, "constraintMs"))
		constraint := oracle.ComposeTS(constraintPhys, int64(rapid.IntRange(0, 5).Draw(t, "constraintLogical")))
		n := rapid.IntRange(1, 6).Draw(t, "len")
		seq := make([]uint64, n)
		prev := uint64(0)
		for i := range seq {
			var v uint64
			switch rapid.IntRange(0, 4).Draw(t, "rel") {
			case 0:
				v = constraint - uint64(rapid.IntRange(1, 1<<20).Draw(t, "below"))
			case 1:
				v = constraint
			case 2:
				v = constraint + 1
			case 3:
				v = oracle.ComposeTS(constraintPhys-int64(rapid.IntRange(1, 2500).Draw(t, "lagMs")), 0)
			default:
				v = constraint + uint64(rapid.IntRange(2, 1<<22).Draw(t, "above"))
			}
			if v <= prev {
				v = prev + 1
			}
			seq[i], prev = v, v
		}
		timeout := time.Duration(rapid.SampledFrom([]int{0, 1, 50, 1000, 5000}).Draw(t, "timeoutMs")) * time.Millisecond
		so := &scriptedOracle{Oracle: orig, seq: seq}
		store.SetOracle(so)
		defer store.SetOracle(orig)
		startTS := seq[0] - 10
		txn, err := store.Begin(tikv.WithStartTS(startTS))
		if err != nil {
			t.Fatalf("VERIF-INFRA: begin: %v", err)
		}
		txn.SetCommitWaitUntilTSO(constraint)
		txn.SetCommitWaitUntilTSOTimeout(timeout)
		bo := retry.NewBackofferWithVars(context.Background(), 20000, nil)
		ts, err := txn.GetTimestampForCommit(bo, oracle.GlobalTxnScope)
		desc := fmt.Sprintf("constraint=%d seq(relative)=%v timeout=%v -> ts(relative)=%d err=%v fetches=%d", constraint, rel(seq, constraint), timeout, int64(ts-constraint), err, so.calls)
		if err == nil {
			if ts <= constraint {
				t.Fatalf("commit ts %d is not strictly greater than the commit-wait constraint %d: %s", ts, constraint, desc)
			}
			last := seq[len(seq)-1]
			if so.calls <= len(seq) {
				last = seq[so.calls-1]
			} else {
				last = seq[len(seq)-1] + uint64(so.calls)
			}
			if ts != last {
				t.Fatalf("returned commit ts is not the last timestamp obtained from the oracle: %s", desc)
			}
		}
		lag := oracle.GetTimeFromTS(constraint).Sub(oracle.GetTimeFromTS(seq[0]))
		switch {
		case seq[0] > constraint:
			if err != nil || ts != seq[0] || so.calls != 1 {
				t.Fatalf("first ts already exceeds the constraint: expected it back without waiting: %s", desc)
			}
		case timeout == 0 || lag > timeout:
			if err == nil {
				t.Fatalf("expected failure (zero time-out or lag %v above the time-out): %s", lag, desc)
			}
		case len(seq) > 1 && seq[1] > constraint && timeout >= 2*time.Millisecond:
			if err != nil || ts != seq[1] {
				t.Fatalf("second ts exceeds the constraint within the time-out: expected success with it: %s", desc)
			}
		}
		cls := "ok"
		if err != nil {
			cls = "error"
		}
		rec.Case(fmt.Sprintf("%v/%v", rel(seq, constraint), timeout), seq[0] <= constraint, []string{cls}, desc)
	})
}

func rel(seq []uint64, c uint64) []string {
	out := make([]string, len(seq))
	for i, v := range seq {
		switch {
		case v < c:
			out[i] = "<"
		case v == c:
			out[i] = "="
		case v == c+1:
			out[i] = "+1"
		default:
			out[i] = ">"
		}
	}
	return out
}
