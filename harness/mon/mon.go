// Package mon is the request-stream monitor of property C04: a pure function over
// the RPC trace of a simulated cluster (package sim), the timestamps granted by
// the virtual PD, and the API calls the harness made (never client internals).
package mon

import (
	"bytes"
	"fmt"
	"math"
	"sort"
	"strings"

	"github.com/pingcap/kvproto/pkg/kvrpcpb"
	"github.com/tikv/client-go/v2/oracle"
	"github.com/tikv/client-go/v2/tikvrpc"
	"github.com/tikv/client-go/v2/verif/sim"
)

// Violation of one monitor rule.
type Violation struct {
	Rule string
	Msg  string
}

func (v Violation) String() string { return v.Rule + ": " + v.Msg }

// Input of the monitor.
type Input struct {
	Entries []*sim.Entry
	Txns    []*sim.TxnRec
	// MaxIssuedBefore(client, ev) = largest timestamp granted to that client before event ev
	MaxIssuedBefore func(client int, ev int64) uint64
	// Exempt marks entries outside the rules for resolvers (GC's batch resolution; the harness' auditor uses
	// the ordinary resolver and is not exempt)
	Exempt func(e *sim.Entry) bool
	// ManagedTTL is the value of transaction.ManagedLockTTL during the case (ms)
	ManagedTTL uint64
}

// Stats counts what the monitor actually evaluated (for evidence).
type Stats struct {
	Txns, Prewrites, Commits, Rollbacks, Resolves, StatusChecks, HeartBeats, Regrouped, Expected int
}

type mutExp struct {
	op        kvrpcpb.Op
	value     []byte
	action    kvrpcpb.PrewriteRequest_PessimisticAction
	assertion kvrpcpb.Assertion
}

// Expected computes, from the recorded API calls only, the mutation each key of the transaction must be
// prewritten with (M9); keys absent from the result must not be prewritten at all.
func Expected(t *sim.TxnRec) map[string]mutExp {
	out := map[string]mutExp{}
	locked := t.LockedKeys()
	type st struct {
		last     *sim.WriteRec
		presumed bool
		assert   kvrpcpb.Assertion // the assertion flag last put on the key (flags outlive later writes)
	}
	per := map[string]*st{}
	var order []string
	for i := range t.Writes {
		w := &t.Writes[i]
		s := per[w.Key]
		if s == nil {
			s = &st{}
			per[w.Key] = s
			order = append(order, w.Key)
		}
		if w.Op == "insert" {
			s.presumed = true
		}
		if t.AssertLevel > 0 {
			switch w.Assert {
			case "exist":
				s.assert = kvrpcpb.Assertion_Exist
			case "notexist":
				s.assert = kvrpcpb.Assertion_NotExist
			}
		}
		s.last = w
	}
	action := func(k string) kvrpcpb.PrewriteRequest_PessimisticAction {
		if _, ok := locked[k]; ok && t.Pessimistic {
			return kvrpcpb.PrewriteRequest_DO_PESSIMISTIC_CHECK
		}
		return kvrpcpb.PrewriteRequest_SKIP_PESSIMISTIC_CHECK
	}
	for _, k := range order {
		s := per[k]
		_, isLocked := locked[k]
		switch {
		case s.last.Op != "delete":
			op := kvrpcpb.Op_Put
			if s.presumed {
				op = kvrpcpb.Op_Insert
			}
			out[k] = mutExp{op, s.last.Value, action(k), s.assert}
		case !t.Pessimistic && s.presumed:
			out[k] = mutExp{kvrpcpb.Op_CheckNotExists, nil, kvrpcpb.PrewriteRequest_SKIP_PESSIMISTIC_CHECK, s.assert}
		case t.Pessimistic && s.presumed: // newly inserted then deleted: only the lock is converted
			if isLocked {
				out[k] = mutExp{kvrpcpb.Op_Lock, nil, action(k), s.assert}
			}
		default:
			out[k] = mutExp{kvrpcpb.Op_Del, nil, action(k), s.assert}
		}
	}
	for k := range locked {
		if _, written := per[k]; !written {
			out[k] = mutExp{kvrpcpb.Op_Lock, nil, action(k), kvrpcpb.Assertion_None}
		}
	}
	return out
}

func okPrewrite(e *sim.Entry) bool {
	r, _ := e.Resp.(*kvrpcpb.PrewriteResponse)
	return e.Answered && r != nil && r.RegionError == nil && len(r.Errors) == 0
}

// outcome of a request as the client could know it
const (
	success  = "success"
	negative = "negative" // answered with an error, or the request was provably not executed (region error)
	unknown  = "unknown"  // transport error: may or may not have been executed
	pending  = "pending"
)

func commitOutcome(e *sim.Entry) string {
	if e.DoneEv == 0 {
		return pending
	}
	if !e.Answered {
		return unknown
	}
	r, _ := e.Resp.(*kvrpcpb.CommitResponse)
	if r == nil {
		return unknown
	}
	if r.RegionError != nil || r.Error != nil {
		return negative
	}
	return success
}

func prewriteOutcome(e *sim.Entry) string {
	if e.DoneEv == 0 {
		return pending
	}
	if !e.Answered {
		return unknown
	}
	if okPrewrite(e) {
		return success
	}
	return negative
}

// refusedLater: a prewrite of key k sent after attempt p had returned, and answered before the rollback rb went
// out, was refused with a write conflict or already-exists error that names k itself. Had p (whose answer was lost)
// written the lock, the re-sent prewrite would have found the transaction's own lock - or, after a resolver
// committed the transaction, its own commit record (TiKV looks for that record when the request is marked as a
// retry, hence the q.Retry condition) - and succeeded; the refusal therefore proves that k is not locked and the
// transaction not committed, so p no longer counts as "may have been prewritten".
func refusedLater(prewrites []*sim.Entry, p, rb *sim.Entry, k string) bool {
	if p.DoneEv == 0 {
		return false
	}
	for _, q := range prewrites {
		if q.SentEv <= p.DoneEv || q.DoneEv == 0 || q.DoneEv >= rb.SentEv || !q.Answered || !q.Retry {
			continue
		}
		resp, ok := q.Resp.(*kvrpcpb.PrewriteResponse)
		if !ok || resp.GetRegionError() != nil {
			continue
		}
		for _, ke := range resp.GetErrors() {
			if c := ke.GetConflict(); c != nil && string(c.GetKey()) == k {
				return true
			}
			if a := ke.GetAlreadyExist(); a != nil && string(a.GetKey()) == k {
				return true
			}
		}
	}
	return false
}

func keysOf(muts []*kvrpcpb.Mutation) []string {
	var ks []string
	for _, m := range muts {
		ks = append(ks, string(m.Key))
	}
	return ks
}

func has(keys [][]byte, k []byte) bool {
	for _, x := range keys {
		if bytes.Equal(x, k) {
			return true
		}
	}
	return false
}

// Check evaluates every rule and returns the violations found plus what was evaluated.
func Check(in Input) ([]Violation, Stats) {
	var vs []Violation
	var st Stats
	add := func(rule, f string, a ...any) { vs = append(vs, Violation{rule, fmt.Sprintf(f, a...)}) }
	byStart := map[uint64]*sim.TxnRec{}
	for _, t := range in.Txns {
		byStart[t.StartTS] = t
	}
	type txnTrace struct {
		prewrites, commits, rollbacks, hbs, plocks []*sim.Entry
	}
	tr := map[uint64]*txnTrace{}
	get := func(s uint64) *txnTrace {
		if tr[s] == nil {
			tr[s] = &txnTrace{}
		}
		return tr[s]
	}
	for _, e := range in.Entries {
		switch r := e.Req.(type) {
		case *kvrpcpb.PrewriteRequest:
			get(r.StartVersion).prewrites = append(get(r.StartVersion).prewrites, e)
		case *kvrpcpb.CommitRequest:
			get(r.StartVersion).commits = append(get(r.StartVersion).commits, e)
		case *kvrpcpb.BatchRollbackRequest:
			get(r.StartVersion).rollbacks = append(get(r.StartVersion).rollbacks, e)
		case *kvrpcpb.TxnHeartBeatRequest:
			get(r.StartVersion).hbs = append(get(r.StartVersion).hbs, e)
		case *kvrpcpb.PessimisticLockRequest:
			get(r.StartVersion).plocks = append(get(r.StartVersion).plocks, e)
		}
	}
	starts := make([]uint64, 0, len(tr))
	for s := range tr {
		starts = append(starts, s)
	}
	sort.Slice(starts, func(i, j int) bool { return starts[i] < starts[j] })

	for _, start := range starts {
		x := tr[start]
		t := byStart[start] // may be nil (a transaction the harness did not record, e.g. the auditor's)
		st.Txns++
		st.Prewrites += len(x.prewrites)
		st.Commits += len(x.commits)
		st.Rollbacks += len(x.rollbacks)
		st.HeartBeats += len(x.hbs)
		owner := -1
		if t != nil {
			owner = t.Client
		}

		// ---- M8: one primary, a locked mutation; async secondaries; 1PC only with a single prewrite request
		var primary []byte
		lockedKeys := map[string]bool{}
		keySets := map[string]bool{}
		for _, e := range x.prewrites {
			r := e.Req.(*kvrpcpb.PrewriteRequest)
			if primary == nil {
				primary = r.PrimaryLock
			} else if !bytes.Equal(primary, r.PrimaryLock) {
				add("M8-primary", "txn %d: prewrites name two primaries %q and %q", start, primary, r.PrimaryLock)
			}
			for _, m := range r.Mutations {
				if m.Op != kvrpcpb.Op_CheckNotExists {
					lockedKeys[string(m.Key)] = true
				}
			}
			ks := keysOf(r.Mutations)
			sort.Strings(ks)
			keySets[strings.Join(ks, "\x00")] = true
		}
		if len(keySets) > 1 {
			// the same key re-sent in a differently grouped request
			seen := map[string]int{}
			for set := range keySets {
				for _, k := range strings.Split(set, "\x00") {
					seen[k]++
				}
			}
			for _, n := range seen {
				if n > 1 {
					st.Regrouped++
					break
				}
			}
		}
		// the locked mutations of the transaction: from the API calls when known (not every prewrite need have
		// been sent when the commit failed early), else from the trace once a Commit was sent
		allLocked, allKeys := map[string]bool{}, map[string]bool{}
		if t != nil {
			for k, m := range Expected(t) {
				allKeys[k] = true
				if m.op != kvrpcpb.Op_CheckNotExists {
					allLocked[k] = true
				}
			}
		} else if len(x.commits) > 0 {
			for k := range lockedKeys {
				allLocked[k], allKeys[k] = true, true
			}
		}
		if len(x.prewrites) > 0 && len(allLocked) > 0 && !allLocked[string(primary)] {
			add("M8-primary", "txn %d: primary %q is not one of the locked mutations %v", start, primary, keysSorted(allLocked))
		}
		for _, e := range x.prewrites {
			r := e.Req.(*kvrpcpb.PrewriteRequest)
			if r.UseAsyncCommit && hasKey(r.Mutations, primary) {
				if len(allLocked) == 0 {
					continue
				}
				want := map[string]bool{}
				for k := range allLocked {
					if k != string(primary) {
						want[k] = true
					}
				}
				got := map[string]bool{}
				for _, s := range r.Secondaries {
					got[string(s)] = true
				}
				if !sameSet(want, got) || len(got) != len(r.Secondaries) {
					add("M8-secondaries", "txn %d: async-commit primary prewrite lists secondaries %q, the other locked keys are %v", start, r.Secondaries, keysSorted(want))
				}
			}
			if r.TryOnePc && len(allKeys) > 0 {
				// a one-phase attempt is a single request: it must carry every mutation of the transaction
				got := map[string]bool{}
				for _, m := range r.Mutations {
					got[string(m.Key)] = true
				}
				if !sameSet(got, allKeys) {
					add("M8-1pc", "txn %d: one-phase commit attempted by a request carrying %v, the transaction's mutations are %v", start, keysSorted(got), keysSorted(allKeys))
				}
			}
		}

		// ---- M9: prewritten mutations equal what the API calls imply
		if t != nil {
			exp := Expected(t)
			st.Expected += len(exp)
			sent := map[string]bool{}
			for _, e := range x.prewrites {
				r := e.Req.(*kvrpcpb.PrewriteRequest)
				for i, m := range r.Mutations {
					k := string(m.Key)
					sent[k] = true
					want, ok := exp[k]
					if !ok {
						add("M9-extra", "txn %d: prewrites %v(%s) but the transaction's API calls imply no mutation for that key", start, m.Op, k)
						continue
					}
					if m.Op != want.op || !bytes.Equal(m.Value, want.value) {
						add("M9-op", "txn %d key %s: prewritten as %v %q, the API calls imply %v %q", start, k, m.Op, m.Value, want.op, want.value)
					}
					act := kvrpcpb.PrewriteRequest_SKIP_PESSIMISTIC_CHECK
					if i < len(r.PessimisticActions) {
						act = r.PessimisticActions[i]
					}
					if act != want.action {
						add("M9-action", "txn %d key %s: pessimistic action %v, expected %v (locked keys: %v)", start, k, act, want.action, keysSortedU(t.LockedKeys()))
					}
					if m.Assertion != want.assertion {
						add("M9-assertion", "txn %d key %s: prewritten with assertion %v, the flags put on the key imply %v (assertion level %d)", start, k, m.Assertion, want.assertion, t.AssertLevel)
					}
					if wantLevel := kvrpcpb.AssertionLevel(t.AssertLevel); r.AssertionLevel != wantLevel {
						add("M9-assertion", "txn %d: prewrite carries assertion level %v, the transaction asked for %v", start, r.AssertionLevel, wantLevel)
					}
				}
			}
			if t.CommitClass == "ok" && (t.Ended == "commit" || t.Told) {
				for k := range exp {
					if !sent[k] {
						add("M9-missing", "txn %d committed successfully but key %s (expected %v) was never prewritten", start, k, exp[k].op)
					}
				}
			}
		}

		// ---- commit mode actually in force: async iff every successful prewrite carried async + got a min commit ts
		async, anyOK := true, false
		onePC := false
		var maxMinCommit uint64
		for _, e := range x.prewrites {
			r := e.Req.(*kvrpcpb.PrewriteRequest)
			if !okPrewrite(e) {
				continue
			}
			resp := e.Resp.(*kvrpcpb.PrewriteResponse)
			anyOK = true
			if !r.UseAsyncCommit || resp.MinCommitTs == 0 {
				async = false
			}
			if resp.OnePcCommitTs != 0 {
				onePC = true
			}
			if resp.MinCommitTs > maxMinCommit {
				maxMinCommit = resp.MinCommitTs
			}
		}

		async = async && anyOK

		// ---- M1: no Commit sent before every mutation was successfully prewritten
		for _, c := range x.commits {
			need := map[string]bool{}
			for k := range lockedKeys {
				need[k] = true
			}
			if t != nil {
				for k := range Expected(t) {
					need[k] = true
				}
			}
			for _, p := range x.prewrites {
				if okPrewrite(p) && p.DoneEv != 0 && p.DoneEv < c.SentEv {
					for _, m := range p.Req.(*kvrpcpb.PrewriteRequest).Mutations {
						delete(need, string(m.Key))
					}
				}
			}
			if len(need) > 0 {
				add("M1", "txn %d: Commit %s was sent before keys %v had a successful prewrite answer", start, sim.DescribeEntry(c), keysSorted(need))
			}
		}

		// ---- M2: secondaries only after the primary's commit succeeded (unless async commit)
		if !async {
			for _, c := range x.commits {
				r := c.Req.(*kvrpcpb.CommitRequest)
				if has(r.Keys, primary) && len(r.Keys) == 1 {
					continue
				}
				onlySecondaries := !has(r.Keys, primary)
				if !onlySecondaries {
					continue // a batch that carries the primary together with other keys is the primary batch
				}
				ok := false
				for _, pc := range x.commits {
					if has(pc.Req.(*kvrpcpb.CommitRequest).Keys, primary) && commitOutcome(pc) == success && pc.DoneEv < c.SentEv {
						ok = true
					}
				}
				if !ok {
					add("M2", "txn %d: secondary keys %q were committed before the primary %q had a successful commit answer", start, r.Keys, primary)
				}
			}
		}

		// ---- M3: the owner never rolls back once the commit point may have been passed
		for _, rb := range x.rollbacks {
			if owner >= 0 && rb.Client != owner {
				continue
			}
			if async {
				// commit point = all locks prewritten
				may := len(lockedKeys) > 0
				for k := range lockedKeys {
					kOK := false
					for _, p := range x.prewrites {
						if p.SentEv < rb.SentEv && hasKey(p.Req.(*kvrpcpb.PrewriteRequest).Mutations, []byte(k)) {
							if o := prewriteOutcome(p); (o == success || o == unknown || o == pending) && !refusedLater(x.prewrites, p, rb, k) {
								kOK = true
							}
						}
					}
					if !kOK {
						may = false
					}
				}
				if may {
					add("M3", "txn %d (async commit): BatchRollback %s sent although every lock may have been prewritten", start, sim.DescribeEntry(rb))
				}
				continue
			}
			for _, pc := range x.commits {
				if !has(pc.Req.(*kvrpcpb.CommitRequest).Keys, primary) || pc.SentEv > rb.SentEv {
					continue
				}
				if o := commitOutcome(pc); o == success || o == unknown || o == pending {
					add("M3", "txn %d: BatchRollback %s sent after the primary commit %s (outcome %s)", start, sim.DescribeEntry(rb), sim.DescribeEntry(pc), o)
				}
			}
			if onePC {
				add("M3", "txn %d: BatchRollback %s sent although a one-phase commit succeeded", start, sim.DescribeEntry(rb))
			}
		}

		// ---- M7: timestamps
		// one commit ts per transaction, except that the store may refuse a commit ts as expired (a reader pushed the
		// lock's min-commit ts past it): nothing was committed under the refused ts and the client draws a new one
		tsExpired := func(c *sim.Entry) bool {
			resp, ok := c.Resp.(*kvrpcpb.CommitResponse)
			return ok && c.Err == "" && resp.GetRegionError() == nil && resp.GetError().GetCommitTsExpired() != nil
		}
		for i, c := range x.commits {
			r := c.Req.(*kvrpcpb.CommitRequest)
			for _, prev := range x.commits[:i] {
				if pv := prev.Req.(*kvrpcpb.CommitRequest).CommitVersion; pv != r.CommitVersion && !(prev.DoneEv != 0 && prev.DoneEv < c.SentEv && tsExpired(prev)) {
					add("M7-one-ts", "txn %d: commit requests carry two commit timestamps %d and %d, and the request with the first one was not refused as expired: %s", start, pv, r.CommitVersion, sim.DescribeEntry(prev))
					break
				}
			}
			if r.CommitVersion <= start {
				add("M7-start", "txn %d: commit ts %d does not exceed the start ts", start, r.CommitVersion)
			}
			for _, p := range x.prewrites {
				if okPrewrite(p) && p.DoneEv < c.SentEv {
					if mc := p.Resp.(*kvrpcpb.PrewriteResponse).MinCommitTs; mc > r.CommitVersion {
						add("M7-mincommit", "txn %d: commit ts %d is below the min commit ts %d a prewrite returned", start, r.CommitVersion, mc)
					}
				}
			}
			if t != nil && !t.Causal && t.MaxTSOBeforeCommit != 0 && c.Client == t.Client && r.CommitVersion <= t.MaxTSOBeforeCommit {
				add("M7-linearizable", "txn %d: commit ts %d does not exceed timestamp %d which the oracle had issued before Commit was called", start, r.CommitVersion, t.MaxTSOBeforeCommit)
			}
		}
		for _, p := range x.prewrites {
			r := p.Req.(*kvrpcpb.PrewriteRequest)
			if !okPrewrite(p) {
				continue
			}
			resp := p.Resp.(*kvrpcpb.PrewriteResponse)
			final := resp.OnePcCommitTs
			if final == 0 && r.UseAsyncCommit {
				final = resp.MinCommitTs // a lower bound of the final commit ts
			}
			if final == 0 {
				continue
			}
			if final <= start {
				add("M7-start", "txn %d: %s commit ts (bound) %d does not exceed the start ts", start, modeName(resp), final)
			}
			if t != nil && !t.Causal && t.MaxTSOBeforeCommit != 0 && p.Client == t.Client && p.SentEv > t.CommitCallEv && final <= t.MaxTSOBeforeCommit {
				add("M7-linearizable", "txn %d: %s commit ts (bound) %d does not exceed timestamp %d which the oracle had issued before Commit was called", start, modeName(resp), final, t.MaxTSOBeforeCommit)
			}
		}

		// ---- M6: heart-beats
		var lastTTL uint64
		afterEnd := 0
		for _, hb := range x.hbs {
			r := hb.Req.(*kvrpcpb.TxnHeartBeatRequest)
			hbPrimary := primary
			if hbPrimary == nil {
				for _, pl := range x.plocks {
					hbPrimary = pl.Req.(*kvrpcpb.PessimisticLockRequest).PrimaryLock
					break
				}
			}
			if hbPrimary != nil && !bytes.Equal(r.PrimaryLock, hbPrimary) {
				add("M6-primary", "txn %d: heart-beat names %q, the primary is %q", start, r.PrimaryLock, hbPrimary)
			}
			if r.AdviseLockTtl < lastTTL {
				add("M6-monotone", "txn %d: heart-beat advises ttl %d after %d", start, r.AdviseLockTtl, lastTTL)
			}
			lastTTL = r.AdviseLockTtl
			if in.MaxIssuedBefore != nil {
				now := in.MaxIssuedBefore(hb.Client, hb.SentEv)
				if age := oracle.ExtractPhysical(now) - oracle.ExtractPhysical(start); now != 0 && int64(r.AdviseLockTtl) <= age {
					add("M6-age", "txn %d: heart-beat advises ttl %d ms but the transaction is already %d ms old on the owner's clock", start, r.AdviseLockTtl, age)
				}
			}
			if t != nil && t.EndEv != 0 && hb.SentEv > t.EndEv {
				// the ttl manager is stopped asynchronously: the tick that was already in progress when the
				// transaction ended may still send its heart-beat; any further one means it was not stopped
				if afterEnd++; afterEnd > 1 {
					add("M6-after-end", "txn %d: heart-beat %s is the %d. one sent after the transaction had ended", start, sim.DescribeEntry(hb), afterEnd)
				}
			}
		}
	}

	// ---------------------------------------------------------------- resolver rules (M4, M5)
	type lockSeen struct {
		ttl     uint64
		primary []byte
	}
	type clientView struct {
		status    map[uint64][]*kvrpcpb.CheckTxnStatusResponse
		secondary map[uint64][]*sim.Entry
		locks     map[uint64]lockSeen
	}
	views := map[int]*clientView{}
	view := func(c int) *clientView {
		if views[c] == nil {
			views[c] = &clientView{map[uint64][]*kvrpcpb.CheckTxnStatusResponse{}, map[uint64][]*sim.Entry{}, map[uint64]lockSeen{}}
		}
		return views[c]
	}
	noteLock := func(c int, l *kvrpcpb.LockInfo) {
		if l != nil {
			// several locks of one transaction can carry different ttls (prewrite vs pessimistic locks); the smallest
			// one seen is kept, so the expiry rule never demands more than the lock the resolver actually used
			if old, ok := view(c).locks[l.LockVersion]; ok && old.ttl < l.LockTtl {
				return
			}
			view(c).locks[l.LockVersion] = lockSeen{l.LockTtl, l.PrimaryLock}
		}
	}
	noteKeyErr := func(c int, ke *kvrpcpb.KeyError) {
		if ke != nil {
			noteLock(c, ke.Locked)
		}
	}
	// process in the order the client learnt things: by DoneEv for answers, SentEv for requests
	type evt struct {
		at   int64
		e    *sim.Entry
		done bool
	}
	var evts []evt
	for _, e := range in.Entries {
		evts = append(evts, evt{e.SentEv, e, false})
		if e.DoneEv != 0 {
			evts = append(evts, evt{e.DoneEv, e, true})
		}
	}
	sort.Slice(evts, func(i, j int) bool { return evts[i].at < evts[j].at })
	for _, ev := range evts {
		e := ev.e
		if ev.done {
			if !e.Answered {
				continue
			}
			switch r := e.Resp.(type) {
			case *kvrpcpb.GetResponse:
				noteKeyErr(e.Client, r.Error)
			case *kvrpcpb.BatchGetResponse:
				noteKeyErr(e.Client, r.Error)
				for _, p := range r.Pairs {
					noteKeyErr(e.Client, p.Error)
				}
			case *kvrpcpb.ScanResponse:
				noteKeyErr(e.Client, r.Error)
				for _, p := range r.Pairs {
					noteKeyErr(e.Client, p.Error)
				}
			case *kvrpcpb.PrewriteResponse:
				for _, ke := range r.Errors {
					noteKeyErr(e.Client, ke)
				}
			case *kvrpcpb.PessimisticLockResponse:
				for _, ke := range r.Errors {
					noteKeyErr(e.Client, ke)
				}
			case *kvrpcpb.ScanLockResponse:
				for _, l := range r.Locks {
					noteLock(e.Client, l)
				}
			case *kvrpcpb.CheckTxnStatusResponse:
				req := e.Req.(*kvrpcpb.CheckTxnStatusRequest)
				if r.RegionError == nil && r.Error == nil {
					view(e.Client).status[req.LockTs] = append(view(e.Client).status[req.LockTs], r)
					noteLock(e.Client, r.LockInfo)
				}
			case *kvrpcpb.CheckSecondaryLocksResponse:
				req := e.Req.(*kvrpcpb.CheckSecondaryLocksRequest)
				if r.RegionError == nil && r.Error == nil {
					view(e.Client).secondary[req.StartVersion] = append(view(e.Client).secondary[req.StartVersion], e)
				}
			}
			continue
		}
		if in.Exempt != nil && in.Exempt(e) {
			continue
		}
		switch r := e.Req.(type) {
		case *kvrpcpb.CheckTxnStatusRequest:
			st.StatusChecks++
			var now uint64
			if in.MaxIssuedBefore != nil {
				now = in.MaxIssuedBefore(e.Client, e.SentEv)
			}
			seen, known := view(e.Client).locks[r.LockTs]
			if r.CurrentTs == math.MaxUint64 {
				if !known || seen.ttl != 0 {
					add("M5-current", "client %d: %s claims current ts = max although the lock it saw has ttl %d (known=%v)", e.Client, sim.DescribeEntry(e), seen.ttl, known)
				}
			} else if now != 0 && r.CurrentTs > now {
				add("M5-current", "client %d: %s carries current ts %d, beyond every timestamp (%d) its oracle has been granted", e.Client, sim.DescribeEntry(e), r.CurrentTs, now)
			}
			if r.RollbackIfNotExist && known && now != 0 && seen.ttl != 0 {
				if oracle.ExtractPhysical(now) < oracle.ExtractPhysical(r.LockTs)+int64(seen.ttl) {
					add("M5-rollback-if-not-exist", "client %d: %s asks to roll back a missing primary although the lock (ttl %d ms) has not outlived its ttl on the resolver's clock (now %d ms after the lock's start)", e.Client, sim.DescribeEntry(e), seen.ttl, oracle.ExtractPhysical(now)-oracle.ExtractPhysical(r.LockTs))
				}
			}
		case *kvrpcpb.CheckSecondaryLocksRequest:
			// M5b: the recovery of an async-commit transaction (which rolls it back if a secondary is missing) may start
			// only when the primary's ttl, as the store last reported it to this client, has elapsed on this client's clock
			if sts := view(e.Client).status[r.StartVersion]; len(sts) > 0 && in.MaxIssuedBefore != nil {
				last := sts[len(sts)-1]
				now := in.MaxIssuedBefore(e.Client, e.SentEv)
				if last.LockTtl > 0 && last.CommitVersion == 0 && now != 0 &&
					oracle.ExtractPhysical(now) < oracle.ExtractPhysical(r.StartVersion)+int64(last.LockTtl) {
					add("M5-async-recovery", "client %d: %s starts the recovery of async-commit txn %d although the store reported its primary alive with ttl %d ms and only %d ms have passed since its start on the resolver's clock", e.Client, sim.DescribeEntry(e), r.StartVersion, last.LockTtl, oracle.ExtractPhysical(now)-oracle.ExtractPhysical(r.StartVersion))
				}
			}
		case *kvrpcpb.ResolveLockRequest:
			st.Resolves++
			infos := map[uint64]uint64{}
			if len(r.TxnInfos) > 0 {
				for _, ti := range r.TxnInfos {
					infos[ti.Txn] = ti.Status
				}
			} else {
				infos[r.StartVersion] = r.CommitVersion
			}
			for txn, commit := range infos {
				allowed, why := allowedOutcomes(view(e.Client).status[txn], view(e.Client).secondary[txn])
				if !allowed[commit] {
					add("M4", "client %d: %s applies outcome commit_ts=%d to txn %d, but the store had reported to this client only: %s", e.Client, sim.DescribeEntry(e), commit, txn, why)
				}
			}
		case *kvrpcpb.PessimisticRollbackRequest:
			if t := byStart[r.StartVersion]; t == nil || t.Client == e.Client {
				continue
			}
			okStatus := false
			for _, s := range view(e.Client).status[r.StartVersion] {
				// the store reported the transaction finished (committed, rolled back, expired or absent): whatever
				// pessimistic lock of it is still around is dead and may be removed
				if s.LockTtl == 0 {
					okStatus = true
				}
			}
			if !okStatus {
				add("M4-pessimistic", "client %d: %s removes a pessimistic lock of another transaction although the store never reported that transaction finished (committed / rolled back / expired / missing) to this client", e.Client, sim.DescribeEntry(e))
			}
		case *kvrpcpb.BatchRollbackRequest:
			if t := byStart[r.StartVersion]; t != nil && t.Client != e.Client {
				add("M4-rollback", "client %d: %s rolls back another client's transaction with BatchRollback", e.Client, sim.DescribeEntry(e))
			}
		}
	}
	return vs, st
}

// allowedOutcomes derives which (commit ts | 0 = rollback) outcomes the store's answers justify.
func allowedOutcomes(status []*kvrpcpb.CheckTxnStatusResponse, secondary []*sim.Entry) (map[uint64]bool, string) {
	allowed := map[uint64]bool{}
	var why []string
	var primaryMin uint64
	var secondaries [][]byte
	asyncPrimary := false
	for _, s := range status {
		switch {
		case s.CommitVersion > 0:
			allowed[s.CommitVersion] = true
			why = append(why, fmt.Sprintf("status committed@%d", s.CommitVersion))
		case s.LockTtl == 0:
			allowed[0] = true
			why = append(why, fmt.Sprintf("status rolled-back/absent (action %v)", s.Action))
		default:
			why = append(why, fmt.Sprintf("status alive ttl=%d async=%v", s.LockTtl, s.LockInfo.GetUseAsyncCommit()))
			if s.LockInfo.GetUseAsyncCommit() {
				asyncPrimary = true
				secondaries = s.LockInfo.Secondaries
				if s.LockInfo.MinCommitTs > primaryMin {
					primaryMin = s.LockInfo.MinCommitTs
				}
			}
		}
	}
	if len(secondary) > 0 || asyncPrimary {
		found := map[string]uint64{}
		checked := map[string]bool{}
		for _, e := range secondary {
			req := e.Req.(*kvrpcpb.CheckSecondaryLocksRequest)
			resp := e.Resp.(*kvrpcpb.CheckSecondaryLocksResponse)
			switch {
			case resp.CommitTs > 0:
				allowed[resp.CommitTs] = true
				why = append(why, fmt.Sprintf("secondary committed@%d", resp.CommitTs))
			case len(resp.Locks) < len(req.Keys):
				allowed[0] = true
				why = append(why, "a secondary is missing (rolled back)")
			default:
				for _, k := range req.Keys {
					checked[string(k)] = true
				}
				for _, l := range resp.Locks {
					found[string(l.Key)] = l.MinCommitTs
					if !l.UseAsyncCommit {
						// a secondary that fell back to 2PC: the outcome must come from the primary's status
						why = append(why, "a secondary lock is not async-commit")
					}
				}
			}
		}
		if asyncPrimary {
			all := true
			max := primaryMin
			for _, k := range secondaries {
				if !checked[string(k)] {
					all = false
				}
				if found[string(k)] > max {
					max = found[string(k)]
				}
			}
			if all {
				allowed[max] = true
				why = append(why, fmt.Sprintf("all %d secondaries locked: max min-commit-ts %d", len(secondaries), max))
			}
		}
	}
	if len(why) == 0 {
		why = []string{"nothing"}
	}
	return allowed, strings.Join(why, "; ")
}

func modeName(r *kvrpcpb.PrewriteResponse) string {
	if r.OnePcCommitTs != 0 {
		return "one-phase"
	}
	return "async"
}

func hasKey(muts []*kvrpcpb.Mutation, k []byte) bool {
	for _, m := range muts {
		if bytes.Equal(m.Key, k) {
			return true
		}
	}
	return false
}

func sameSet(a, b map[string]bool) bool {
	if len(a) != len(b) {
		return false
	}
	for k := range a {
		if !b[k] {
			return false
		}
	}
	return true
}

func keysSorted(m map[string]bool) []string {
	var ks []string
	for k := range m {
		ks = append(ks, k)
	}
	sort.Strings(ks)
	return ks
}

func keysSortedU(m map[string]uint64) []string {
	var ks []string
	for k := range m {
		ks = append(ks, k)
	}
	sort.Strings(ks)
	return ks
}

var _ = tikvrpc.CmdPrewrite

// CheckWorld runs the monitor over everything a simulated world recorded.
func CheckWorld(w *sim.World, exempt func(e *sim.Entry) bool) ([]Violation, Stats) {
	cl := w.Cl
	entries := w.Frozen
	if entries == nil {
		entries = cl.Trace.Since(0)
	}
	return Check(Input{
		Entries: entries,
		Txns:    w.Recs(),
		MaxIssuedBefore: func(c int, ev int64) uint64 {
			if c < 0 || c >= len(cl.Clients) {
				return 0
			}
			return cl.Clients[c].PD.MaxIssuedBefore(ev)
		},
		Exempt: exempt,
	})
}
