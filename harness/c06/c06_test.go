// Package c06 decides property C06: when a transaction ends on a failure-free path, no lock
// it owns remains in the store once the client's background work has drained - without
// waiting for any lock to expire.
package c06

import (
	"fmt"
	"runtime/debug"
	"strings"
	"testing"
	"time"

	"github.com/tikv/client-go/v2/config"
	"github.com/tikv/client-go/v2/kv"
	"github.com/tikv/client-go/v2/verif/ev"
	"github.com/tikv/client-go/v2/verif/prog"
	_ "github.com/tikv/client-go/v2/verif/quiet"
	"github.com/tikv/client-go/v2/verif/sim"
	"pgregory.net/rapid"
)

const rule = "generated programs of 2-4 concurrent transactions (generator of C01 with fewer reads, plus: aggressive-locking statement attempts Start / Retry / Cancel / Done around lock calls, lock calls that wait 1-15 ms, commit or rollback while an attempt is open) over 2-5 shared keys in 1-4 regions, so that lock calls and commits fail with write conflict, key exists, deadlock (crossing lock waits through gates), lock-wait time-out; tolerated faults are region errors (NotLeader, EpochNotMatch, ServerIsBusy, StaleCommand), real splits and leader transfers between steps and at gates inside Commit / LockKeys - no request or response is ever lost; when the program is over every still-open transaction is rolled back, then WITHOUT letting any lock expire the store is scanned (polling up to 5 s while the clients' background clean-up drains); oracle: no lock whose start ts belongs to a transaction that ended by Commit (nil or definite error) or Rollback; non-trivial = at least one step of an ended transaction failed (lock error, refused statement, commit error) or an aggressive-locking retry / cancel happened; distinct = program text + configuration"

type result struct {
	infra, hung string
	left        []sim.Leftover
	w           *sim.World
	fail        string
}

func run(backend sim.Backend, nStores int, batch1, conc1 bool, keys, splits []string, steps []*sim.Step) (res result) {
	oldBatch := kv.TxnCommitBatchSize.Load()
	if batch1 {
		kv.TxnCommitBatchSize.Store(1)
	}
	defer kv.TxnCommitBatchSize.Store(oldBatch)
	cfg := *config.GetGlobalConfig()
	orig := cfg
	if conc1 {
		cfg.CommitterConcurrency = 1
	}
	config.StoreGlobalConfig(&cfg)
	defer config.StoreGlobalConfig(&orig)
	cl, err := sim.NewCluster(backend, nStores, 3)
	if err != nil {
		res.infra = err.Error()
		return
	}
	defer cl.Close()
	for _, k := range splits {
		cl.SplitAt(k)
	}
	w := sim.NewWorld(cl, keys, func(f string, a ...any) {
		if res.fail == "" {
			res.fail = fmt.Sprintf(f, a...)
		}
	})
	defer w.Release()
	res.w = w
	done := make(chan struct{})
	go func() {
		defer close(done)
		defer func() {
			if r := recover(); r != nil && res.fail == "" {
				res.fail = fmt.Sprintf("panic during step %q: %v\n%s", w.Log[len(w.Log)-1], r, debug.Stack())
			}
		}()
		for _, s := range steps {
			w.Exec(s)
		}
		res.left, err = w.Settle(5 * time.Second)
		if err != nil {
			res.infra = "scan locks: " + err.Error()
		}
	}()
	select {
	case <-done:
	case <-time.After(90 * time.Second):
		res.hung = "case did not finish within 90 s; log:\n    " + strings.Join(w.Log, "\n    ") + "\n  goroutines:\n" + sim.GoroutineDump()
	}
	return
}

func leftovers(t *testing.T, backend sim.Backend) {
	rec := ev.For(t, "C06", rule)
	rapid.Check(t, func(t *rapid.T) {
		nStores := 1
		if backend == sim.Mock {
			nStores = rapid.SampledFrom([]int{1, 3}).Draw(t, "stores")
		}
		batch1 := rapid.Bool().Draw(t, "batchsize1")
		conc1 := rapid.Bool().Draw(t, "concurrency1")
		keys, splits, steps := prog.Gen(t, backend, 2, prog.Options{Aggressive: true, WaitLocks: true, NoLoss: true, NoReads: true})
		res := run(backend, nStores, batch1, conc1, keys, splits, steps)
		if sp := res.w.Cl.StorePanic(); sp != "" {
			t.Skip("void case: " + sp) // substrate defect (13.6): the case says nothing about the client
		}
		if r := res.w.Cl.Runaway(); r != "" {
			t.Fatalf("VERIF-INFRA: a call did not terminate (judged by C02 / C05): %s\n  program: %s", r, prog.String(steps))
		}
		if res.hung != "" || res.infra != "" {
			t.Fatalf("VERIF-INFRA: %s %s\n  program: %s", res.hung, res.infra, prog.String(steps))
		}
		if res.fail != "" {
			t.Fatalf("actor failure: %s\n  program: %s\n  log:\n    %s", res.fail, prog.String(steps), strings.Join(res.w.Log, "\n    "))
		}
		if len(res.left) > 0 {
			var ls []string
			for _, l := range res.left {
				ls = append(ls, fmt.Sprintf("key %s: %s lock of txn %d (start %d, ended by %s)", l.Key, l.Type, l.Txn, l.Start, l.Ended))
			}
			t.Fatalf("locks of finished transactions are left behind although no request was lost and no lock expired:\n  %s\n  config: backend=%v stores=%d batch1=%v conc1=%v splits=%q\n  program: %s\n  log:\n    %s\n  rpc trace:\n    %s",
				strings.Join(ls, "\n  "), backend, nStores, batch1, conc1, splits, prog.String(steps), strings.Join(res.w.Log, "\n    "), strings.ReplaceAll(res.w.Cl.Trace.Describe(), "\n", "\n    "))
		}
		log := strings.Join(res.w.Log, "\n")
		var classes []string
		for _, m := range []string{"lock error", "statement refused", "pessimistic insert refused", "commit ->", "aggr-retry", "aggr-cancel", "aggr-done", "deadlock", "write conflict", "lock wait timeout", "already exist"} {
			if strings.Contains(strings.ToLower(log), m) {
				classes = append(classes, "saw:"+m)
			}
		}
		nt := strings.Contains(log, "lock error") || strings.Contains(log, "refused") || strings.Contains(log, "commit ->") || strings.Contains(log, "aggr-retry") || strings.Contains(log, "aggr-cancel")
		rec.Case(fmt.Sprintf("%v/%d/%v/%v/%q/%s", backend, nStores, batch1, conc1, splits, prog.String(steps)), nt, append(classes, "backend="+backend.String()),
			map[string]any{"program": prog.String(steps), "splits": splits})
	})
}

func TestNoLeftoverLocks(t *testing.T)    { leftovers(t, sim.Mock) }
func TestNoLeftoverLocksUni(t *testing.T) { leftovers(t, sim.Uni) }
