// Package c18 decides property C18: over the batched stream every call returns exactly
// once, with the response to its own request or with an error, never blocking beyond
// its time-out - while the stream breaks and is re-created, requests are cancelled,
// priorities differ, forwarding is used and connections are closed concurrently.
package c18

import (
	"context"
	"errors"
	"fmt"
	"net"
	"strings"
	"sync"
	"sync/atomic"
	"testing"
	"time"

	"github.com/pingcap/kvproto/pkg/kvrpcpb"
	"github.com/pingcap/kvproto/pkg/tikvpb"
	"github.com/tikv/client-go/v2/config"
	"github.com/tikv/client-go/v2/internal/client"
	"github.com/tikv/client-go/v2/tikvrpc"
	"github.com/tikv/client-go/v2/verif/ev"
	_ "github.com/tikv/client-go/v2/verif/quiet"
	"google.golang.org/grpc"
	"pgregory.net/rapid"
)

// script of the server for one case
type script struct {
	DelayMs     []int // per message index (cyclic): delay before answering
	ReorderMask int   // bit i set => answers of message i are sent in reverse order, one response message per id
	DropAfter   int   // break the stream after this many received messages (<=0: never)
	DropEvery   bool  // every stream breaks after DropAfter messages, not only the first
	Bogus       bool  // add answers for ids that were never sent, and repeat an already answered id
	SilentEvery int   // never answer every n-th request id (0: answer all)
	StopAtMs    int   // stop the whole server at this time (0: never)
	RestartMs   int   // and restart it after this many ms (0: never)
}

type server struct {
	tikvpb.TikvServer
	resolveMu sync.Mutex
	resolved  map[uint64]bool // start versions of the ResolveLock requests that reached the server
	sc        script
	streams   atomic.Int64
	messages  atomic.Int64
	breaks    atomic.Int64
}

func echo(id uint64, r *tikvpb.BatchCommandsRequest_Request) *tikvpb.BatchCommandsResponse_Response {
	switch c := r.Cmd.(type) {
	case *tikvpb.BatchCommandsRequest_Request_Get:
		return &tikvpb.BatchCommandsResponse_Response{Cmd: &tikvpb.BatchCommandsResponse_Response_Get{Get: &kvrpcpb.GetResponse{Value: c.Get.Key}}}
	case *tikvpb.BatchCommandsRequest_Request_ResolveLock:
		noteResolve(c.ResolveLock.StartVersion)
		return &tikvpb.BatchCommandsResponse_Response{Cmd: &tikvpb.BatchCommandsResponse_Response_ResolveLock{ResolveLock: &kvrpcpb.ResolveLockResponse{}}}
	}
	return &tikvpb.BatchCommandsResponse_Response{Cmd: &tikvpb.BatchCommandsResponse_Response_Empty{Empty: &tikvpb.BatchCommandsEmptyResponse{}}}
}

// the running case's server (one case at a time)
var current atomic.Pointer[server]

func noteResolve(start uint64) {
	if s := current.Load(); s != nil {
		s.resolveMu.Lock()
		s.resolved[start] = true
		s.resolveMu.Unlock()
	}
}

func (s *server) BatchCommands(ss tikvpb.Tikv_BatchCommandsServer) error {
	streamNo := s.streams.Add(1)
	var sendMu sync.Mutex
	send := func(resp *tikvpb.BatchCommandsResponse) {
		sendMu.Lock()
		defer sendMu.Unlock()
		_ = ss.Send(resp)
	}
	received := 0
	for {
		req, err := ss.Recv()
		if err != nil {
			return err
		}
		n := int(s.messages.Add(1))
		received++
		if s.sc.DropAfter > 0 && received > s.sc.DropAfter && (s.sc.DropEvery || streamNo == 1) {
			s.breaks.Add(1)
			return errors.New("scripted stream failure")
		}
		delay := 0
		if len(s.sc.DelayMs) > 0 {
			delay = s.sc.DelayMs[n%len(s.sc.DelayMs)]
		}
		ids := append([]uint64{}, req.RequestIds...)
		reqs := req.Requests
		answer := func() {
			// the repeated answer must follow the genuine one on the wire: it repeats an id answered by this very call
			var lastAnswered uint64
			answered := false
			var out []*tikvpb.BatchCommandsResponse
			one := &tikvpb.BatchCommandsResponse{}
			for i, id := range ids {
				if s.sc.SilentEvery > 0 && int(id)%s.sc.SilentEvery == s.sc.SilentEvery-1 {
					continue
				}
				r := echo(id, reqs[i])
				if s.sc.ReorderMask&(1<<(n%8)) != 0 {
					out = append([]*tikvpb.BatchCommandsResponse{{RequestIds: []uint64{id}, Responses: []*tikvpb.BatchCommandsResponse_Response{r}}}, out...)
				} else {
					one.RequestIds = append(one.RequestIds, id)
					one.Responses = append(one.Responses, r)
				}
				lastAnswered, answered = id, true
			}
			if len(one.RequestIds) > 0 {
				out = append(out, one)
			}
			if s.sc.Bogus {
				bogus := &tikvpb.BatchCommandsResponse{RequestIds: []uint64{1 << 40}, Responses: []*tikvpb.BatchCommandsResponse_Response{
					{Cmd: &tikvpb.BatchCommandsResponse_Response_Get{Get: &kvrpcpb.GetResponse{Value: []byte("bogus-unknown-id")}}},
				}}
				if answered {
					bogus.RequestIds = append(bogus.RequestIds, lastAnswered)
					bogus.Responses = append(bogus.Responses, &tikvpb.BatchCommandsResponse_Response{Cmd: &tikvpb.BatchCommandsResponse_Response_Get{Get: &kvrpcpb.GetResponse{Value: []byte("bogus-repeated-id")}}})
				}
				out = append(out, bogus)
			}
			for _, o := range out {
				send(o)
			}
		}
		if delay > 0 {
			go func() { time.Sleep(time.Duration(delay) * time.Millisecond); answer() }()
		} else {
			answer()
		}
	}
}

// unary fall-backs (used when batching is bypassed)
func (s *server) KvGet(ctx context.Context, req *kvrpcpb.GetRequest) (*kvrpcpb.GetResponse, error) {
	return &kvrpcpb.GetResponse{Value: req.Key}, nil
}
func (s *server) KvResolveLock(ctx context.Context, req *kvrpcpb.ResolveLockRequest) (*kvrpcpb.ResolveLockResponse, error) {
	noteResolve(req.StartVersion)
	return &kvrpcpb.ResolveLockResponse{}, nil
}

type running struct {
	srv  *server
	g    *grpc.Server
	addr string
}

func start(srv *server, addr string) (*running, error) {
	if addr == "" {
		addr = "127.0.0.1:0"
	}
	lis, err := net.Listen("tcp", addr)
	if err != nil {
		return nil, err
	}
	g := grpc.NewServer()
	tikvpb.RegisterTikvServer(g, srv)
	go func() { _ = g.Serve(lis) }()
	return &running{srv, g, lis.Addr().String()}, nil
}

type callSpec struct {
	TimeoutMs int
	CancelMs  int // cancel the context after this many ms (0: never)
	Priority  int // 0 normal, 1 high, 2 low (resource control override)
	Forward   bool
	Resolve   bool // a region-wide ResolveLock through the collapsing wrapper
}

type callResult struct {
	payload      string
	spec         callSpec
	err          error
	value        string
	kind         string
	resolveStart uint64
	elapsed      time.Duration
	returns      int32
}

const rule = "a loopback gRPC TiKV server whose BatchCommands stream follows a generated script (per-message delays 0-40 ms, answers reversed and split into one message per id, stream broken after k messages once or on every stream, answers for never-sent ids and repeated answers for an already answered id, every n-th request id never answered) serves 1-48 caller goroutines issuing 1-6 calls each through RPCClient.SendRequest: Get requests with a unique payload (the server echoes it), time-outs 60-400 ms, optional cancellation after 1-80 ms, normal / high / low priority, optional forwarded host, and region-wide ResolveLock requests (1 in 5 calls) through the collapsing wrapper; concurrently the connection to the store may be closed (CloseAddr), the client may be shut down midway (Close followed by CloseAddr, 1 case in 5) and is closed at the end; oracle: every call returns exactly once; a successful Get carries exactly its own payload, a successful ResolveLock a ResolveLock response and a ResolveLock for its own transaction has reached the server (calls use distinct transactions, rollbacks and commits, a few share one); every failure is an error value; no call returns later than its time-out plus 3 s; all callers have returned 20 s after the last one started; non-trivial = a stream break, cancellation or unanswered id happened while at least 2 calls were in flight; distinct = script + call specs"

func TestBatchMultiplexing(t *testing.T) {
	rec := ev.For(t, "C18", rule)
	if l, err := net.Listen("tcp", "127.0.0.1:0"); err != nil {
		t.Fatalf("VERIF-INFRA: loopback is not available: %v", err)
	} else {
		l.Close()
	}
	rapid.Check(t, func(t *rapid.T) {
		sc := script{
			ReorderMask: rapid.IntRange(0, 255).Draw(t, "reorder"),
			Bogus:       rapid.Bool().Draw(t, "bogus"),
		}
		for i := rapid.IntRange(0, 4).Draw(t, "ndelays"); i > 0; i-- {
			sc.DelayMs = append(sc.DelayMs, rapid.SampledFrom([]int{0, 0, 1, 5, 20, 40}).Draw(t, "delay"))
		}
		if rapid.IntRange(0, 2).Draw(t, "drop") != 0 {
			sc.DropAfter = rapid.IntRange(1, 6).Draw(t, "dropafter")
			sc.DropEvery = rapid.IntRange(0, 3).Draw(t, "dropevery") == 0
		}
		if rapid.IntRange(0, 3).Draw(t, "silent") == 0 {
			sc.SilentEvery = rapid.IntRange(2, 7).Draw(t, "silentevery")
		}
		// The server process itself is never stopped: with the store down, establishing a connection is bounded by
		// the client's dial time-out (5 s), not by the request's time-out, and the property quantifies over stream
		// failures and restarts, cancellation and shutdown of the client - not over an unreachable store.
		nCallers := rapid.IntRange(1, 48).Draw(t, "callers")
		perCaller := rapid.IntRange(1, 6).Draw(t, "percaller")
		closeAddrAt := 0
		if rapid.IntRange(0, 4).Draw(t, "closeaddr") == 0 {
			closeAddrAt = rapid.IntRange(2, 80).Draw(t, "closeaddrat")
		}
		// shutdown while callers are at work: the client is closed, and - as the region request sender does after a
		// failed send - the connection to the address is closed again right afterwards; calls in flight and calls
		// started later must all return (with "client closed" or any other error, or their answer)
		shutdownAt := 0
		if rapid.IntRange(0, 4).Draw(t, "shutdown") == 0 {
			shutdownAt = rapid.IntRange(2, 120).Draw(t, "shutdownat")
		}
		conns := rapid.IntRange(1, 3).Draw(t, "conns")
		batchWait := rapid.SampledFrom([]time.Duration{0, 0, time.Millisecond}).Draw(t, "batchwait")
		specs := make([][]callSpec, nCallers)
		for i := range specs {
			for j := 0; j < perCaller; j++ {
				s := callSpec{TimeoutMs: rapid.IntRange(60, 400).Draw(t, "timeout"), Priority: rapid.IntRange(0, 2).Draw(t, "priority")}
				if rapid.IntRange(0, 4).Draw(t, "cancel") == 0 {
					s.CancelMs = rapid.IntRange(1, 80).Draw(t, "cancelat")
				}
				s.Forward = rapid.IntRange(0, 7).Draw(t, "forward") == 0
				s.Resolve = rapid.IntRange(0, 4).Draw(t, "resolve") == 0
				specs[i] = append(specs[i], s)
			}
		}
		desc := fmt.Sprintf("script=%+v callers=%d x %d closeAddr@%dms shutdown@%dms conns=%d batchWait=%v", sc, nCallers, perCaller, closeAddrAt, shutdownAt, conns, batchWait)

		cfg := *config.GetGlobalConfig()
		orig := cfg
		cfg.TiKVClient.GrpcConnectionCount = uint(conns)
		cfg.TiKVClient.MaxBatchWaitTime = batchWait
		config.StoreGlobalConfig(&cfg)
		defer config.StoreGlobalConfig(&orig)

		srv := &server{sc: sc, resolved: map[uint64]bool{}}
		current.Store(srv)
		run, err := start(srv, "")
		if err != nil {
			t.Fatalf("VERIF-INFRA: %v", err)
		}
		addr := run.addr
		var runMu sync.Mutex
		defer func() {
			runMu.Lock()
			if run != nil {
				run.g.Stop()
			}
			runMu.Unlock()
		}()
		rpc := client.NewRPCClient()
		collapsed := client.NewReqCollapse(rpc)
		t0 := time.Now()
		var inflight, maxInflightAtEvent atomic.Int32
		event := func() {
			if n := inflight.Load(); n > maxInflightAtEvent.Load() {
				maxInflightAtEvent.Store(n)
			}
		}
		if sc.StopAtMs > 0 {
			go func() {
				time.Sleep(time.Duration(sc.StopAtMs) * time.Millisecond)
				runMu.Lock()
				event()
				run.g.Stop()
				run = nil
				runMu.Unlock()
				if sc.RestartMs > 0 {
					time.Sleep(time.Duration(sc.RestartMs) * time.Millisecond)
					runMu.Lock()
					if r, err := start(srv, addr); err == nil {
						run = r
					}
					runMu.Unlock()
				}
			}()
		}
		if closeAddrAt > 0 {
			go func() {
				time.Sleep(time.Duration(closeAddrAt) * time.Millisecond)
				event()
				_ = rpc.CloseAddr(addr)
			}()
		}
		if shutdownAt > 0 {
			go func() {
				time.Sleep(time.Duration(shutdownAt) * time.Millisecond)
				event()
				_ = rpc.Close()
				_ = rpc.CloseAddr(addr)
			}()
		}
		results := make([][]*callResult, nCallers)
		var wg sync.WaitGroup
		for i := 0; i < nCallers; i++ {
			results[i] = make([]*callResult, len(specs[i]))
			wg.Add(1)
			go func(i int) {
				defer wg.Done()
				for j, sp := range specs[i] {
					res := &callResult{payload: fmt.Sprintf("caller-%d-call-%d", i, j), spec: sp}
					results[i][j] = res
					ctx, cancel := context.WithCancel(context.Background())
					if sp.CancelMs > 0 {
						go func() { time.Sleep(time.Duration(sp.CancelMs) * time.Millisecond); event(); cancel() }()
					}
					var req *tikvrpc.Request
					if sp.Resolve {
						// region-wide resolve of "transaction" (1000 + caller*10 + call): a rollback (commit version 0) or a
						// commit; a few callers share one transaction on purpose (legitimately collapsible)
						start := uint64(1000 + i*10 + j)
						if i%5 == 4 {
							start = 999
						}
						var commit uint64
						if (i+j)%3 == 0 {
							commit = start + 5
						}
						res.resolveStart = start
						req = tikvrpc.NewRequest(tikvrpc.CmdResolveLock, &kvrpcpb.ResolveLockRequest{StartVersion: start, CommitVersion: commit})
					} else {
						req = tikvrpc.NewRequest(tikvrpc.CmdGet, &kvrpcpb.GetRequest{Key: []byte(res.payload), Version: 1})
					}
					req.Context.RegionId = 5
					switch sp.Priority {
					case 1:
						req.Context.ResourceControlContext = &kvrpcpb.ResourceControlContext{OverridePriority: 16}
					case 2:
						req.Context.ResourceControlContext = &kvrpcpb.ResourceControlContext{OverridePriority: 1}
					}
					if sp.Forward {
						req.ForwardedHost = "127.0.0.1:1"
					}
					begin := ev.Observed()
					inflight.Add(1)
					var resp *tikvrpc.Response
					var err error
					if sp.Resolve {
						resp, err = collapsed.SendRequest(ctx, addr, req, time.Duration(sp.TimeoutMs)*time.Millisecond)
					} else {
						resp, err = rpc.SendRequest(ctx, addr, req, time.Duration(sp.TimeoutMs)*time.Millisecond)
					}
					inflight.Add(-1)
					atomic.AddInt32(&res.returns, 1)
					res.elapsed = ev.Observed() - begin
					res.err = err
					if err == nil && resp != nil {
						switch r := resp.Resp.(type) {
						case *kvrpcpb.GetResponse:
							res.kind, res.value = "get", string(r.Value)
						case *kvrpcpb.ResolveLockResponse:
							res.kind = "resolve"
						default:
							res.kind = fmt.Sprintf("%T", resp.Resp)
						}
					}
					cancel()
				}
			}(i)
		}
		doneCh := make(chan struct{})
		go func() { wg.Wait(); close(doneCh) }()
		if _, ok := ev.Await(doneCh, 400); !ok {
			var stuck []string
			for i := range results {
				for j, r := range results[i] {
					if r != nil && atomic.LoadInt32(&r.returns) == 0 {
						stuck = append(stuck, fmt.Sprintf("caller %d call %d (%+v)", i, j, r.spec))
					}
				}
			}
			t.Fatalf("calls are blocked far beyond their time-out (25 s after start): %s\n  case: %s", strings.Join(stuck, "; "), desc)
		}
		closed := make(chan struct{})
		go func() { _ = rpc.Close(); close(closed) }()
		if _, ok := ev.Await(closed, 400); !ok {
			t.Fatalf("RPCClient.Close did not return within 40 s after every call had returned\n  case: %s", desc)
		}
		var okGet, okResolve, failed, cancelled int
		for i := range results {
			for j, r := range results[i] {
				who := fmt.Sprintf("caller %d call %d (%+v)", i, j, r.spec)
				if r.returns != 1 {
					t.Fatalf("%s returned %d times\n  case: %s", who, r.returns, desc)
				}
				limit := time.Duration(r.spec.TimeoutMs)*time.Millisecond + 3*time.Second
				if r.elapsed > limit {
					t.Fatalf("%s returned after %v, its time-out is %d ms\n  case: %s", who, r.elapsed, r.spec.TimeoutMs, desc)
				}
				switch {
				case r.err != nil:
					failed++
					if r.spec.CancelMs > 0 {
						cancelled++
					}
				case r.spec.Resolve:
					if r.kind != "resolve" {
						t.Fatalf("%s (ResolveLock) got a %s response\n  case: %s", who, r.kind, desc)
					}
					srv.resolveMu.Lock()
					reached := srv.resolved[r.resolveStart]
					srv.resolveMu.Unlock()
					if !reached {
						t.Fatalf("%s: ResolveLock for transaction %d returned success, but no ResolveLock for that transaction ever reached the store - the caller was handed another call's response\n  case: %s", who, r.resolveStart, desc)
					}
					okResolve++
				default:
					if r.kind != "get" || r.value != r.payload {
						t.Fatalf("%s sent payload %q and was handed the response %s %q - another call's or a stray response\n  case: %s", who, r.payload, r.kind, r.value, desc)
					}
					okGet++
				}
			}
		}
		disturbed := srv.breaks.Load() > 0 || sc.StopAtMs > 0 || cancelled > 0 || sc.SilentEvery > 0 || closeAddrAt > 0 || shutdownAt > 0
		nt := disturbed && (maxInflightAtEvent.Load() >= 2 || (srv.breaks.Load() > 0 && nCallers >= 2) || (sc.SilentEvery > 0 && nCallers >= 2))
		rec.Case(desc+fmt.Sprint(specs), nt, []string{
			fmt.Sprintf("stream-breaks=%v", srv.breaks.Load() > 0), fmt.Sprintf("server-stop=%v", sc.StopAtMs > 0), fmt.Sprintf("cancelled-calls=%v", cancelled > 0),
			fmt.Sprintf("unanswered-ids=%v", sc.SilentEvery > 0), fmt.Sprintf("close-addr=%v", closeAddrAt > 0), fmt.Sprintf("shutdown-midway=%v", shutdownAt > 0), fmt.Sprintf("bogus-answers=%v", sc.Bogus),
			fmt.Sprintf("some-failed=%v", failed > 0), fmt.Sprintf("some-ok=%v", okGet+okResolve > 0), fmt.Sprintf("streams>1=%v", srv.streams.Load() > 1)},
			map[string]any{"case": desc, "ok_get": okGet, "ok_resolve": okResolve, "failed": failed, "streams": srv.streams.Load(), "time_ms": time.Since(t0).Milliseconds()})
	})
}
