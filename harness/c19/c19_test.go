// Package c19 decides property C19: memory-comparable encodings are
// order-preserving, invertible (value + exact unconsumed suffix), prefix-free,
// and reject malformed input.
package c19

import (
	"bytes"
	"encoding/binary"
	"fmt"
	"math"
	"sort"
	"testing"

	"github.com/tikv/client-go/v2/internal/apicodec"
	"github.com/tikv/client-go/v2/util/codec"
	"github.com/tikv/client-go/v2/verif/ev"
	"pgregory.net/rapid"
)

var alphabet = []byte{0x00, 0x01, 0x7f, 0x80, 0xfe, 0xff}

func sign(x int) int {
	switch {
	case x < 0:
		return -1
	case x > 0:
		return 1
	}
	return 0
}

func properPrefix(a, b []byte) bool { return len(a) < len(b) && bytes.Equal(a, b[:len(a)]) }

// checkBytesOne: round trip with suffix, prefix buffer kept, region-key codec agrees.
func checkBytesOne(fail func(string, ...any), a, suffix, dst []byte) {
	enc := codec.EncodeBytes(append([]byte{}, dst...), a)
	if !bytes.HasPrefix(enc, dst) {
		fail("EncodeBytes(%x,%x) lost its destination prefix: %x", dst, a, enc)
	}
	body := enc[len(dst):]
	if want := (len(a)/8 + 1) * 9; len(body) != want {
		fail("EncodeBytes(%x) has length %d, format says %d", a, len(body), want)
	}
	in := append(append([]byte{}, body...), suffix...)
	rest, dec, err := codec.DecodeBytes(in, nil)
	if err != nil {
		fail("DecodeBytes(EncodeBytes(%x)+%x) failed: %v", a, suffix, err)
	}
	if !bytes.Equal(dec, a) {
		fail("DecodeBytes(EncodeBytes(%x)) = %x", a, dec)
	}
	if !bytes.Equal(rest, suffix) {
		fail("DecodeBytes(EncodeBytes(%x)+%x) left suffix %x", a, suffix, rest)
	}
	// with a caller-supplied scratch buffer
	rest, dec, err = codec.DecodeBytes(in, make([]byte, 3, 5))
	if err != nil || !bytes.Equal(dec, a) || !bytes.Equal(rest, suffix) {
		fail("DecodeBytes with scratch buffer: %x -> %x rest %x err %v", a, dec, rest, err)
	}
	// the region-key codec (memComparableCodec) is the same encoding
	c := apicodec.NewCodecV1(apicodec.ModeTxn)
	rk := c.EncodeRegionKey(a)
	if !bytes.Equal(rk, body) {
		fail("EncodeRegionKey(%x) = %x, EncodeBytes = %x", a, rk, body)
	}
	back, err := c.DecodeRegionKey(rk)
	if err != nil || !bytes.Equal(back, a) {
		fail("DecodeRegionKey(EncodeRegionKey(%x)) = %x, %v", a, back, err)
	}
	// truncations are rejected
	for cut := 0; cut < len(body); cut++ {
		if cut > 20 && cut < len(body)-20 && cut%9 > 1 {
			continue
		}
		if _, _, err := codec.DecodeBytes(body[:cut], nil); err == nil {
			fail("DecodeBytes accepted truncated input %x (cut %d of %x)", body[:cut], cut, body)
		}
		if _, err := c.DecodeRegionKey(body[:cut]); err == nil && cut > 0 {
			fail("DecodeRegionKey accepted truncated input %x", body[:cut])
		} else if err != nil && !apicodec.IsDecodeError(err) {
			fail("DecodeRegionKey error is not a decode error: %v", err)
		}
	}
}

func checkBytesPair(fail func(string, ...any), a, b []byte) {
	ea, eb := codec.EncodeBytes(nil, a), codec.EncodeBytes(nil, b)
	if sign(bytes.Compare(ea, eb)) != sign(bytes.Compare(a, b)) {
		fail("order broken: cmp(%x,%x)=%d but cmp(enc)=%d", a, b, bytes.Compare(a, b), bytes.Compare(ea, eb))
	}
	if properPrefix(ea, eb) || properPrefix(eb, ea) {
		fail("encoding of %x / %x is a proper prefix of the other", a, b)
	}
}

func boundaryStrings() [][]byte {
	var out [][]byte
	// all strings of length <= 3 over the alphabet
	var rec func(p []byte, n int)
	rec = func(p []byte, n int) {
		out = append(out, append([]byte{}, p...))
		if n == 0 {
			return
		}
		for _, c := range alphabet {
			rec(append(p, c), n-1)
		}
	}
	rec(nil, 3)
	// all lengths 0..26 with boundary fillings: uniform fill, and fill with a differing last byte
	for n := 4; n <= 26; n++ {
		for _, f := range alphabet {
			s := bytes.Repeat([]byte{f}, n)
			out = append(out, s)
			for _, l := range alphabet {
				if l != f {
					t := append([]byte{}, s...)
					t[n-1] = l
					out = append(out, t)
				}
			}
		}
	}
	return out
}

// TestBytesExhaustive enumerates the finite boundary domain of the property completely.
func TestBytesExhaustive(t *testing.T) {
	rec := ev.For(t, "C19", "EncodeBytes/DecodeBytes/region-key codec over ALL strings of length<=3 over {00,01,7f,80,fe,ff} and all lengths 4..26 with uniform and last-byte-differing boundary fillings: one case = one string (round trip with 4 suffixes and 2 destination prefixes, every truncation) or one ordered pair (order embedding + prefix-freeness + concatenation with a descending version); non-trivial = some string involved has length>=8 (crosses an 8-byte group) or contains 00/ff")
	S := boundaryStrings()
	fail := func(f string, a ...any) { t.Fatalf(f, a...) }
	suffixes := [][]byte{{}, {0x00}, {0xff, 0xff}, codec.EncodeBytes(nil, []byte("x"))}
	dsts := [][]byte{nil, {0xff, 0x00, 0xf7}}
	for _, a := range S {
		for _, sfx := range suffixes {
			for _, d := range dsts {
				checkBytesOne(fail, a, sfx, d)
			}
		}
		nt := len(a) >= 8 || bytes.IndexByte(a, 0) >= 0 || bytes.IndexByte(a, 0xff) >= 0
		rec.Case(fmt.Sprintf("one:%x", a), nt, []string{"single"}, map[string]any{"value": fmt.Sprintf("%x", a), "encoded": fmt.Sprintf("%x", codec.EncodeBytes(nil, a))})
	}
	vers := []uint64{0, 1, math.MaxUint64}
	for i, a := range S {
		for j, b := range S {
			checkBytesPair(fail, a, b)
			if (i+j)%7 == 0 { // concatenated fields (the mock's mvcc key = bytes ++ descending uint)
				for _, va := range vers {
					for _, vb := range vers {
						ka := codec.EncodeUintDesc(codec.EncodeBytes(nil, a), va)
						kb := codec.EncodeUintDesc(codec.EncodeBytes(nil, b), vb)
						want := bytes.Compare(a, b)
						if want == 0 {
							want = -sign(cmpU(va, vb))
						}
						if sign(bytes.Compare(ka, kb)) != sign(want) {
							t.Fatalf("concatenated (key,ver desc) order broken for (%x,%d) (%x,%d)", a, va, b, vb)
						}
					}
				}
			}
			rec.Case(fmt.Sprintf("pair:%x:%x", a, b), len(a) >= 8 || len(b) >= 8, []string{"pair"}, nil)
		}
	}
	rec.SetExhaustive(true)
	rec.SetExtra("domain_strings", len(S))
}

func cmpU(a, b uint64) int {
	switch {
	case a < b:
		return -1
	case a > b:
		return 1
	}
	return 0
}

func genBytes() *rapid.Generator[[]byte] {
	return rapid.Custom(func(t *rapid.T) []byte {
		n := rapid.OneOf(rapid.IntRange(0, 12), rapid.SampledFrom([]int{7, 8, 9, 15, 16, 17, 23, 24, 25, 31, 32, 33, 63, 64, 65}), rapid.IntRange(0, 100)).Draw(t, "len")
		mode := rapid.IntRange(0, 2).Draw(t, "mode")
		out := make([]byte, n)
		for i := range out {
			switch mode {
			case 0:
				out[i] = rapid.SampledFrom(alphabet).Draw(t, "b")
			case 1:
				out[i] = rapid.Byte().Draw(t, "b")
			default:
				if rapid.IntRange(0, 3).Draw(t, "k") == 0 {
					out[i] = rapid.Byte().Draw(t, "b")
				} else {
					out[i] = rapid.SampledFrom(alphabet).Draw(t, "b")
				}
			}
		}
		return out
	})
}

// related draws b from a so that the pair differs late (same group prefix, extension, last-byte change).
func related(t *rapid.T, a []byte) []byte {
	switch rapid.IntRange(0, 4).Draw(t, "rel") {
	case 0:
		return genBytes().Draw(t, "b")
	case 1: // extension
		return append(append([]byte{}, a...), genBytes().Draw(t, "ext")...)
	case 2: // truncation
		if len(a) == 0 {
			return []byte{}
		}
		return append([]byte{}, a[:rapid.IntRange(0, len(a)-1).Draw(t, "cut")]...)
	case 3: // one byte changed
		if len(a) == 0 {
			return []byte{0}
		}
		b := append([]byte{}, a...)
		b[rapid.IntRange(0, len(a)-1).Draw(t, "pos")] = rapid.SampledFrom(alphabet).Draw(t, "nb")
		return b
	default: // trailing zero / ff appended (the classic padding confusion)
		return append(append([]byte{}, a...), rapid.SampledFrom([]byte{0x00, 0xff}).Draw(t, "pad"))
	}
}

func TestBytesRapid(t *testing.T) {
	rec := ev.For(t, "C19", "random byte strings (len 0..100, boundary alphabet mixed with uniform bytes, lengths around multiples of 8) and a related second string (extension/truncation/one byte changed/trailing 00 or ff); oracle: round trip with drawn suffix and destination prefix, order embedding, prefix-freeness; non-trivial = a string has length>=8; distinct = distinct (a,b)")
	rapid.Check(t, func(t *rapid.T) {
		a := genBytes().Draw(t, "a")
		b := related(t, a)
		sfx := rapid.SliceOfN(rapid.Byte(), 0, 12).Draw(t, "suffix")
		dst := rapid.SliceOfN(rapid.Byte(), 0, 5).Draw(t, "dst")
		fail := func(f string, x ...any) { t.Fatalf(f, x...) }
		checkBytesOne(fail, a, sfx, dst)
		checkBytesOne(fail, b, sfx, nil)
		checkBytesPair(fail, a, b)
		rec.Case(fmt.Sprintf("%x|%x", a, b), len(a) >= 8 || len(b) >= 8, []string{fmt.Sprintf("groups=%d", len(a)/8)},
			map[string]any{"a": fmt.Sprintf("%x", a), "b": fmt.Sprintf("%x", b), "suffix": fmt.Sprintf("%x", sfx)})
	})
}

// TestBytesMalformed: mutated encodings and arbitrary bytes are rejected or decode canonically; never panic.
func TestBytesMalformed(t *testing.T) {
	rec := ev.For(t, "C19", "hostile inputs to DecodeBytes/DecodeRegionKey: a valid encoding with one mutation (marker changed, padding byte changed, group dropped/inserted, truncated) or arbitrary bytes; oracle: error, or success whose re-encoding reproduces exactly the consumed prefix (the format is canonical) with the exact remaining suffix; non-trivial = the input was derived from a valid encoding of >=1 group and mutated; distinct = distinct inputs")
	rapid.Check(t, func(t *rapid.T) {
		var in []byte
		mutated := false
		if rapid.IntRange(0, 3).Draw(t, "arbitrary") == 0 {
			in = rapid.SliceOfN(rapid.Byte(), 0, 40).Draw(t, "raw")
		} else {
			a := genBytes().Draw(t, "a")
			in = codec.EncodeBytes(nil, a)
			in = append(in, rapid.SliceOfN(rapid.Byte(), 0, 10).Draw(t, "suffix")...)
			switch rapid.IntRange(0, 4).Draw(t, "mut") {
			case 0: // marker byte
				g := rapid.IntRange(0, len(in)/9-1+btoi(len(in)/9 == 0)).Draw(t, "group")
				if p := g*9 + 8; p < len(in) {
					in[p] = rapid.SampledFrom([]byte{0xff, 0xfe, 0xf8, 0xf7, 0xf6, 0x00, 0x08, 0x09}).Draw(t, "marker")
				}
			case 1: // padding byte
				p := rapid.IntRange(0, len(in)-1).Draw(t, "pos")
				in[p] = rapid.SampledFrom([]byte{0x00, 0x01, 0xff}).Draw(t, "padbyte")
			case 2: // truncate
				in = in[:rapid.IntRange(0, len(in)).Draw(t, "cut")]
			case 3: // drop a group
				if len(in) >= 18 {
					in = append(in[:9:9], in[18:]...)
				}
			default:
			}
			mutated = true
		}
		orig := append([]byte{}, in...)
		rest, dec, err := codec.DecodeBytes(in, nil)
		if !bytes.Equal(in, orig) {
			t.Fatalf("DecodeBytes modified its input %x -> %x", orig, in)
		}
		cls := "rejected"
		if err == nil {
			cls = "accepted"
			consumed := len(in) - len(rest)
			if consumed < 9 || consumed%9 != 0 || !bytes.Equal(rest, in[consumed:]) {
				t.Fatalf("DecodeBytes(%x): suffix %x is not the tail after %d consumed bytes", in, rest, consumed)
			}
			if re := codec.EncodeBytes(nil, dec); !bytes.Equal(re, in[:consumed]) {
				t.Fatalf("DecodeBytes accepted malformed input %x as %x (canonical encoding is %x)", in[:consumed], dec, re)
			}
		} else if rest != nil || dec != nil {
			t.Fatalf("DecodeBytes error with non-nil results")
		}
		c := apicodec.NewCodecV1(apicodec.ModeTxn)
		if k, err2 := c.DecodeRegionKey(in); (err2 == nil) != (err == nil || len(in) == 0) {
			t.Fatalf("DecodeRegionKey(%x)=%x,%v disagrees with DecodeBytes err=%v", in, k, err2, err)
		}
		rec.Case(fmt.Sprintf("%x", in), mutated && len(in) >= 9, []string{cls}, map[string]any{"input": fmt.Sprintf("%x", in), "verdict": cls})
	})
}

func btoi(b bool) int {
	if b {
		return 1
	}
	return 0
}

// ---------------------------------------------------------------- integers

func genU64() *rapid.Generator[uint64] {
	return rapid.Custom(func(t *rapid.T) uint64 {
		switch rapid.IntRange(0, 5).Draw(t, "kind") {
		case 0:
			return rapid.Uint64().Draw(t, "u")
		case 1: // around 2^(7k) and 2^(8k): varint and comparable-varint length boundaries
			k := rapid.IntRange(0, 63).Draw(t, "bit")
			d := rapid.Int64Range(-3, 3).Draw(t, "d")
			return (uint64(1) << uint(k)) + uint64(d)
		case 2: // around 0xff..ff of every width
			k := rapid.IntRange(1, 8).Draw(t, "w")
			d := rapid.Int64Range(-3, 3).Draw(t, "d")
			var m uint64 = math.MaxUint64
			if k < 8 {
				m = (uint64(1) << uint(8*k)) - 1
			}
			return m + uint64(d)
		case 3: // the single-byte window of the comparable varint: 0..239, and its edges
			return uint64(rapid.Int64Range(-3, 245).Draw(t, "small"))
		case 4: // negatives near the sign boundary
			return uint64(rapid.Int64Range(-70000, 70000).Draw(t, "near0"))
		default:
			return rapid.SampledFrom([]uint64{0, 1, math.MaxUint64, math.MaxInt64, 1 << 63, (1 << 63) + 1, math.MaxInt64 - 1}).Draw(t, "const")
		}
	})
}

type intCodec struct {
	name       string
	signed     bool
	desc       bool
	comparable bool
	canonical  bool // success on arbitrary input implies re-encoding reproduces the consumed prefix
	enc        func(b []byte, u uint64) []byte
	dec        func(b []byte) ([]byte, uint64, error)
}

func s2u(f func([]byte) ([]byte, int64, error)) func([]byte) ([]byte, uint64, error) {
	return func(b []byte) ([]byte, uint64, error) { r, v, err := f(b); return r, uint64(v), err }
}
func u2s(f func([]byte, int64) []byte) func([]byte, uint64) []byte {
	return func(b []byte, u uint64) []byte { return f(b, int64(u)) }
}

var intCodecs = []intCodec{
	{"Int", true, false, true, true, u2s(codec.EncodeInt), s2u(codec.DecodeInt)},
	{"IntDesc", true, true, true, true, u2s(codec.EncodeIntDesc), s2u(codec.DecodeIntDesc)},
	{"Uint", false, false, true, true, codec.EncodeUint, codec.DecodeUint},
	{"UintDesc", false, true, true, true, codec.EncodeUintDesc, codec.DecodeUintDesc},
	{"Varint", true, false, false, false, u2s(codec.EncodeVarint), s2u(codec.DecodeVarint)},
	{"Uvarint", false, false, false, false, codec.EncodeUvarint, codec.DecodeUvarint},
	{"ComparableVarint", true, false, true, false, u2s(codec.EncodeComparableVarint), s2u(codec.DecodeComparableVarint)},
	{"ComparableUvarint", false, false, true, false, codec.EncodeComparableUvarint, codec.DecodeComparableUvarint},
}

func (c intCodec) cmp(a, b uint64) int {
	r := 0
	if c.signed {
		switch {
		case int64(a) < int64(b):
			r = -1
		case int64(a) > int64(b):
			r = 1
		}
	} else {
		r = cmpU(a, b)
	}
	if c.desc {
		r = -r
	}
	return r
}

func checkIntPair(fail func(string, ...any), c intCodec, a, b uint64, sfx, dst []byte) {
	ea := c.enc(append([]byte{}, dst...), a)
	if !bytes.HasPrefix(ea, dst) {
		fail("%s: encode lost destination prefix", c.name)
	}
	ea = ea[len(dst):]
	eb := c.enc(nil, b)
	in := append(append([]byte{}, ea...), sfx...)
	rest, v, err := c.dec(in)
	if err != nil {
		fail("%s: decode(encode(%d)+%x) failed: %v", c.name, int64(a), sfx, err)
	}
	if v != a {
		fail("%s: decode(encode(%#x)) = %#x", c.name, a, v)
	}
	if !bytes.Equal(rest, sfx) {
		fail("%s: decode(encode(%#x)=%x ++ %x) returned suffix %x, want %x", c.name, a, ea, sfx, rest, sfx)
	}
	if c.comparable && sign(bytes.Compare(ea, eb)) != c.cmp(a, b) {
		fail("%s: order broken for %#x vs %#x: enc %x vs %x", c.name, a, b, ea, eb)
	}
	if properPrefix(ea, eb) || properPrefix(eb, ea) {
		fail("%s: encodings of %#x and %#x are prefix related: %x %x", c.name, a, b, ea, eb)
	}
	if a != b && bytes.Equal(ea, eb) {
		fail("%s: %#x and %#x encode identically", c.name, a, b)
	}
	for cut := 0; cut < len(ea); cut++ {
		if _, _, err := c.dec(ea[:cut]); err == nil {
			fail("%s: truncated encoding %x of %#x (cut %d) accepted", c.name, ea[:cut], a, cut)
		}
	}
}

func TestInts(t *testing.T) {
	rec := ev.For(t, "C19", "all 8 integer codecs (Int/IntDesc/Uint/UintDesc/Varint/Uvarint/ComparableVarint/ComparableUvarint) + EncodeIntToCmpUint on pairs of 64-bit values drawn around sign, 2^(7k), 2^(8k), 0xff.. and the 0..239 single-byte window; oracle: round trip returns value and exact drawn suffix, byte order = value order (reversed for Desc; not required for plain varints), prefix-freeness, every truncation rejected; non-trivial = the comparable-varint encoding of a or b is longer than one byte or the pair straddles the sign; distinct = distinct (a,b)")
	rapid.Check(t, func(t *rapid.T) {
		a := genU64().Draw(t, "a")
		var b uint64
		if rapid.Bool().Draw(t, "near") {
			b = a + uint64(rapid.Int64Range(-2, 2).Draw(t, "delta"))
		} else {
			b = genU64().Draw(t, "b")
		}
		sfx := rapid.SliceOfN(rapid.Byte(), 0, 10).Draw(t, "suffix")
		dst := rapid.SliceOfN(rapid.Byte(), 0, 4).Draw(t, "dst")
		fail := func(f string, x ...any) { t.Fatalf(f, x...) }
		for _, c := range intCodecs {
			checkIntPair(fail, c, a, b, sfx, dst)
		}
		if cmpU(codec.EncodeIntToCmpUint(int64(a)), codec.EncodeIntToCmpUint(int64(b))) != intCodecs[0].cmp(a, b) {
			t.Fatalf("EncodeIntToCmpUint order broken for %d %d", int64(a), int64(b))
		}
		if codec.DecodeCmpUintToInt(codec.EncodeIntToCmpUint(int64(a))) != int64(a) {
			t.Fatalf("EncodeIntToCmpUint round trip broken for %d", int64(a))
		}
		la := len(codec.EncodeComparableVarint(nil, int64(a)))
		lb := len(codec.EncodeComparableVarint(nil, int64(b)))
		nt := la > 1 || lb > 1 || (int64(a) < 0) != (int64(b) < 0)
		rec.Case(fmt.Sprintf("%x:%x", a, b), nt, []string{fmt.Sprintf("cvarint-len=%d", la), fmt.Sprintf("suffix-empty=%v", len(sfx) == 0)},
			map[string]any{"a": int64(a), "b": int64(b), "suffix": fmt.Sprintf("%x", sfx)})
	})
}

// TestIntsBoundaryExhaustive: all pairs of the boundary constants of the property (finite set).
func TestIntsBoundaryExhaustive(t *testing.T) {
	rec := ev.For(t, "C19", "exhaustive over all ordered pairs of the boundary constants {0, +-1, +-2^(7k)+-1, +-2^(8k)+-1, +-(2^(8k)-1)+-1, 238..242, MinInt64, MaxInt64, MaxUint64} for all 8 integer codecs with empty and non-empty suffix; non-trivial = pair straddles a tag/byte-length boundary of the comparable varint")
	set := map[uint64]bool{}
	add := func(v uint64) {
		for d := int64(-1); d <= 1; d++ {
			set[v+uint64(d)] = true
			set[-(v + uint64(d))] = true
		}
	}
	add(0)
	for k := 1; k <= 9; k++ {
		add(uint64(1) << uint(7*k))
	}
	for k := 1; k <= 7; k++ {
		add(uint64(1) << uint(8*k))
	}
	add(1 << 63)
	add(240)
	var vals []uint64
	for v := range set {
		vals = append(vals, v)
	}
	sort.Slice(vals, func(i, j int) bool { return vals[i] < vals[j] })
	fail := func(f string, x ...any) { t.Fatalf(f, x...) }
	for _, a := range vals {
		for _, b := range vals {
			for _, c := range intCodecs {
				checkIntPair(fail, c, a, b, nil, nil)
				checkIntPair(fail, c, a, b, []byte{0x08, 0xff}, []byte{0x01})
			}
			la := len(codec.EncodeComparableVarint(nil, int64(a)))
			lb := len(codec.EncodeComparableVarint(nil, int64(b)))
			rec.Case(fmt.Sprintf("%x:%x", a, b), la != lb, nil, map[string]any{"a": int64(a), "b": int64(b)})
		}
	}
	rec.SetExhaustive(true)
	rec.SetExtra("domain_values", len(vals))
}

// refComparable decodes the documented comparable-varint format independently.
// ok=false means the format says "malformed" (reserved tag for this signedness, short input, sign mismatch).
func refComparable(in []byte, signed bool) (consumed int, v uint64, ok bool) {
	if len(in) == 0 {
		return 0, 0, false
	}
	first := int(in[0])
	if first >= 8 && first <= 0xf7 {
		return 1, uint64(first - 8), true
	}
	var n int
	neg := first < 8
	if neg {
		if !signed {
			return 0, 0, false
		}
		n = 8 - first
		v = math.MaxUint64
	} else {
		n = first - 0xf7
	}
	if len(in) < 1+n {
		return 0, 0, false
	}
	for _, c := range in[1 : 1+n] {
		v = v<<8 | uint64(c)
	}
	if signed && !neg && v > math.MaxInt64 {
		return 0, 0, false
	}
	if neg && v <= math.MaxInt64 {
		return 0, 0, false
	}
	return 1 + n, v, true
}

// TestIntsMalformed: arbitrary bytes into every integer decoder.
func TestIntsMalformed(t *testing.T) {
	rec := ev.For(t, "C19", "arbitrary / tag-biased byte strings into all 8 integer decoders; oracle: no panic; success => suffix is exactly the tail after the consumed bytes, fixed-width decoders consume 8 bytes and re-encode identically, plain varints agree with encoding/binary, comparable varints agree with an independent decoder of the documented tag format (reserved tags and sign mismatches are errors); non-trivial = input starts with a multi-byte tag or has >=8 bytes; distinct = distinct inputs")
	rapid.Check(t, func(t *rapid.T) {
		var in []byte
		if rapid.Bool().Draw(t, "tagged") {
			in = append(in, rapid.SampledFrom([]byte{0, 1, 6, 7, 8, 9, 0xf6, 0xf7, 0xf8, 0xf9, 0xfe, 0xff, 0x80}).Draw(t, "tag"))
		}
		in = append(in, rapid.SliceOfN(rapid.OneOf(rapid.Byte(), rapid.SampledFrom(alphabet)), 0, 14).Draw(t, "raw")...)
		orig := append([]byte{}, in...)
		for _, c := range intCodecs {
			rest, v, err := c.dec(in)
			if !bytes.Equal(in, orig) {
				t.Fatalf("%s modified its input", c.name)
			}
			if err != nil {
				if rest != nil {
					t.Fatalf("%s: error with non-nil rest", c.name)
				}
			} else {
				consumed := len(in) - len(rest)
				if consumed <= 0 || !bytes.Equal(rest, in[consumed:]) {
					t.Fatalf("%s: decode(%x) returned suffix %x that is not the tail after the consumed bytes", c.name, in, rest)
				}
				if c.canonical {
					if re := c.enc(nil, v); !bytes.Equal(re, in[:consumed]) {
						t.Fatalf("%s: decode(%x)=%#x but canonical encoding is %x", c.name, in[:consumed], v, re)
					}
				}
			}
			switch c.name {
			case "Int", "IntDesc", "Uint", "UintDesc":
				if (err == nil) != (len(in) >= 8) {
					t.Fatalf("%s: decode(%x) err=%v", c.name, in, err)
				}
			case "Varint":
				rv, n := binary.Varint(in)
				if (err == nil) != (n > 0) || (n > 0 && (uint64(rv) != v || len(rest) != len(in)-n)) {
					t.Fatalf("Varint decode(%x) = %d rest %x err %v; encoding/binary says %d,%d", in, int64(v), rest, err, rv, n)
				}
			case "Uvarint":
				rv, n := binary.Uvarint(in)
				if (err == nil) != (n > 0) || (n > 0 && (rv != v || len(rest) != len(in)-n)) {
					t.Fatalf("Uvarint decode(%x) = %d rest %x err %v; encoding/binary says %d,%d", in, v, rest, err, rv, n)
				}
			case "ComparableVarint", "ComparableUvarint":
				n, rv, ok := refComparable(in, c.signed)
				if ok != (err == nil) {
					t.Fatalf("%s: decode(%x) err=%v but the format says malformed=%v", c.name, in, err, !ok)
				}
				if ok && (rv != v || len(rest) != len(in)-n) {
					t.Fatalf("%s: decode(%x) = %#x rest %x; format says value %#x consuming %d", c.name, in, v, rest, rv, n)
				}
			}
		}
		nt := len(in) >= 8 || (len(in) > 0 && (in[0] < 8 || in[0] > 0xf7))
		rec.Case(fmt.Sprintf("%x", in), nt, nil, map[string]any{"input": fmt.Sprintf("%x", in)})
	})
}
