// Package c11 decides property C11: raw KV operations behave as one ordered map
// regardless of region layout and of topology changes between or during calls.
package c11

import (
	"bytes"
	"context"
	"fmt"
	"hash/crc64"
	"sort"
	"strings"
	"testing"
	"time"

	"github.com/pingcap/failpoint"
	"github.com/pingcap/kvproto/pkg/metapb"
	"github.com/tikv/client-go/v2/internal/client"
	"github.com/tikv/client-go/v2/internal/locate"
	"github.com/tikv/client-go/v2/internal/mockstore/mocktikv"
	"github.com/tikv/client-go/v2/rawkv"
	"github.com/tikv/client-go/v2/tikvrpc"
	"github.com/tikv/client-go/v2/util"
	"github.com/tikv/client-go/v2/util/async"
	"github.com/tikv/client-go/v2/verif/ev"
	_ "github.com/tikv/client-go/v2/verif/quiet"
	"github.com/tikv/client-go/v2/verif/sim"
	"pgregory.net/rapid"
)

// ---------------------------------------------------------------- interposer

type netClient struct {
	inner   *mocktikv.RPCClient
	cluster *mocktikv.Cluster
	w       *world
	n       int    // requests seen in the current API call
	gateAt  int    // deliver the gateAt-th request only after running gate (0 = off)
	gate    func() // topology change to run while the request is "in flight"
	fired   bool
	viol    string
}

func (c *netClient) Close() error                                { return nil }
func (c *netClient) CloseAddr(addr string) error                 { return nil }
func (c *netClient) SetEventListener(client.ClientEventListener) {}

func rawKeysOf(req *tikvrpc.Request) (keys [][]byte, start, end []byte, isRange bool) {
	switch req.Type {
	case tikvrpc.CmdRawGet:
		return [][]byte{req.RawGet().Key}, nil, nil, false
	case tikvrpc.CmdRawPut:
		return [][]byte{req.RawPut().Key}, nil, nil, false
	case tikvrpc.CmdRawDelete:
		return [][]byte{req.RawDelete().Key}, nil, nil, false
	case tikvrpc.CmdRawCompareAndSwap:
		return [][]byte{req.RawCompareAndSwap().Key}, nil, nil, false
	case tikvrpc.CmdRawBatchGet:
		return req.RawBatchGet().Keys, nil, nil, false
	case tikvrpc.CmdRawBatchDelete:
		return req.RawBatchDelete().Keys, nil, nil, false
	case tikvrpc.CmdRawBatchPut:
		for _, p := range req.RawBatchPut().Pairs {
			keys = append(keys, p.Key)
		}
		return keys, nil, nil, false
	case tikvrpc.CmdRawDeleteRange:
		return nil, req.RawDeleteRange().StartKey, req.RawDeleteRange().EndKey, true
	}
	return nil, nil, nil, false
}

func (c *netClient) SendRequest(ctx context.Context, addr string, req *tikvrpc.Request, timeout time.Duration) (*tikvrpc.Response, error) {
	if strings.HasPrefix(req.Type.String(), "Raw") || req.Type == tikvrpc.CmdGetKeyTTL {
		c.n++
		if c.gateAt > 0 && c.n == c.gateAt && c.gate != nil && !c.fired {
			c.fired = true
			c.gate() // the topology changes between the region lookup and the delivery of this request
		}
		// the mock's raw point handlers do not verify key ownership: do it here against the ground truth
		if meta, _ := c.cluster.GetRegion(req.Context.GetRegionId()); meta != nil && req.Context.GetRegionEpoch() != nil &&
			meta.RegionEpoch.GetVersion() == req.Context.RegionEpoch.GetVersion() && meta.RegionEpoch.GetConfVer() == req.Context.RegionEpoch.GetConfVer() {
			keys, _, _, _ := rawKeysOf(req)
			for _, k := range keys {
				if !(bytes.Compare(meta.StartKey, k) <= 0 && (len(meta.EndKey) == 0 || bytes.Compare(k, meta.EndKey) < 0)) && c.viol == "" {
					c.viol = fmt.Sprintf("%s for key %q was sent to region %d [%q,%q) which does not hold it (the store would have accepted it: epoch matches)", req.Type, k, meta.Id, meta.StartKey, meta.EndKey)
				}
			}
		}
	}
	return c.inner.SendRequest(ctx, addr, req, timeout)
}

func (c *netClient) SendRequestAsync(ctx context.Context, addr string, req *tikvrpc.Request, cb async.Callback[*tikvrpc.Response]) {
	resp, err := c.SendRequest(ctx, addr, req, 0)
	cb.Invoke(resp, err)
}

// ---------------------------------------------------------------- world

type world struct {
	t        *rapid.T
	cluster  *mocktikv.Cluster
	net      *netClient
	cli      *rawkv.Client
	model    map[string][]byte
	ops      []string
	stores   []uint64
	borderAt bool
	midCall  bool
	bigBatch bool
	multi    bool
}

var alphabet = []string{"a", "b", "c", "d", "e", "f", "g", "h"}

func (w *world) fail(f string, a ...any) {
	ops := w.ops
	if len(ops) > 60 {
		ops = ops[len(ops)-60:]
	}
	w.t.Fatalf(f+"\n  ops: %s", append(a, strings.Join(ops, " ; "))...)
}

func (w *world) key(name string) string {
	k := rapid.SampledFrom(alphabet).Draw(w.t, name)
	switch rapid.IntRange(0, 5).Draw(w.t, name+"x") {
	case 0:
		k += "\x00"
	case 1:
		k += rapid.SampledFrom([]string{"1", "5", "z"}).Draw(w.t, name+"s")
	}
	return k
}

func (w *world) val() []byte {
	return []byte(fmt.Sprintf("v%d", rapid.IntRange(0, 99).Draw(w.t, "val")))
}

type treg struct {
	id         uint64
	start, end string
	peers      []*metapb.Peer
	leader     uint64
}

func (w *world) regions() []treg {
	var out []treg
	for _, r := range w.cluster.GetAllRegions() {
		_, leader := w.cluster.GetRegion(r.Meta.Id)
		out = append(out, treg{r.Meta.Id, string(r.Meta.StartKey), string(r.Meta.EndKey), r.Meta.Peers, leader})
	}
	sort.Slice(out, func(i, j int) bool { return out[i].start < out[j].start })
	return out
}

func (w *world) isBorder(k string) bool {
	for _, r := range w.regions() {
		if r.start == k && k != "" {
			return true
		}
	}
	return false
}

func (w *world) spans(start, end string) bool {
	n := 0
	for _, r := range w.regions() {
		if (r.end == "" || r.end > start) && (end == "" || r.start < end) {
			n++
		}
	}
	return n >= 2
}

// topo applies one drawn topology change (used between calls and at a gate during a call).
func (w *world) topo(t *rapid.T, tag string) func() {
	regs := w.regions()
	switch rapid.IntRange(0, 2).Draw(t, tag+"kind") {
	case 0: // split
		k := w.key(tag + "splitkey")
		return func() {
			for _, r := range w.regions() {
				if r.start < k && (r.end == "" || k < r.end) && len(w.regions()) < 7 {
					newID := w.cluster.AllocID()
					peerIDs := w.cluster.AllocIDs(len(r.peers))
					leader := peerIDs[0]
					for i, p := range r.peers {
						if p.Id == r.leader {
							leader = peerIDs[i]
						}
					}
					meta, _ := w.cluster.GetRegion(r.id)
					w.cluster.SplitRaw(r.id, newID, []byte(k), peerIDs, leader)
					// keep epochs TiKV-realistic: both halves get parent.version+1 (the mock gives the new half version 1)
					for _, x := range w.cluster.GetAllRegions() {
						if x.Meta.Id == r.id || x.Meta.Id == newID {
							x.Meta.RegionEpoch = &metapb.RegionEpoch{ConfVer: meta.RegionEpoch.GetConfVer(), Version: meta.RegionEpoch.GetVersion() + 1}
						}
					}
					w.ops = append(w.ops, fmt.Sprintf("%ssplit(r%d@%q)", tag, r.id, k))
					return
				}
			}
		}
	case 1: // merge
		if len(regs) < 2 {
			return func() {}
		}
		i := rapid.IntRange(0, len(regs)-2).Draw(t, tag+"mergeleft")
		return func() {
			rs := w.regions()
			if i+1 < len(rs) {
				a, _ := w.cluster.GetRegion(rs[i].id)
				b, _ := w.cluster.GetRegion(rs[i+1].id)
				w.cluster.Merge(rs[i].id, rs[i+1].id)
				nv := a.RegionEpoch.GetVersion()
				if b.RegionEpoch.GetVersion() > nv {
					nv = b.RegionEpoch.GetVersion()
				}
				for _, x := range w.cluster.GetAllRegions() {
					if x.Meta.Id == rs[i].id { // TiKV: merged version = max(left, right) + 1
						x.Meta.RegionEpoch = &metapb.RegionEpoch{ConfVer: a.RegionEpoch.GetConfVer(), Version: nv + 1}
					}
				}
				w.ops = append(w.ops, fmt.Sprintf("%smerge(r%d<-r%d)", tag, rs[i].id, rs[i+1].id))
			}
		}
	default: // leader transfer
		i := rapid.IntRange(0, len(regs)-1).Draw(t, tag+"region")
		j := rapid.IntRange(0, 2).Draw(t, tag+"peer")
		return func() {
			rs := w.regions()
			if i < len(rs) && j < len(rs[i].peers) {
				w.cluster.ChangeLeader(rs[i].id, rs[i].peers[j].Id)
				w.ops = append(w.ops, fmt.Sprintf("%sleader(r%d->s%d)", tag, rs[i].id, rs[i].peers[j].StoreId))
			}
		}
	}
}

func (w *world) sortedKeys() []string {
	ks := make([]string, 0, len(w.model))
	for k := range w.model {
		ks = append(ks, k)
	}
	sort.Strings(ks)
	return ks
}

func (w *world) rangeKeys(start, end string) []string {
	var out []string
	for _, k := range w.sortedKeys() {
		if k >= start && (end == "" || k < end) {
			out = append(out, k)
		}
	}
	return out
}

const rule = "rapid state machine on rawkv.Client (ClientProbe) over a 3-store mocktikv cluster against a sorted-map model: Get, Put, PutWithTTL, Delete, BatchGet (duplicates, keys on borders), BatchPut, BatchDelete, DeleteRange (bounded/unbounded), Scan/ReverseScan (limit, key-only, bounds on/off borders, unbounded end), Checksum, CompareAndSwap; split/merge/leader-transfer drawn between calls and - through an RPC interposer gate - between the region lookup and the delivery of the k-th partial request of a call (forces EpochNotMatch / NotLeader re-grouping mid-call); a low-weight class sends >512 keys or >16 KiB into one region to cross the per-request batch limits; additional oracle in the interposer: a raw request whose region epoch the store would accept carries only keys of that region; mock panics are violations; non-trivial = a multi-region call with a region border exactly at a bound, or a topology change fired mid-call, or a batch-limit crossing; distinct = op sequence"

func TestRawKVModel(t *testing.T) {
	util.EnableFailpoints()
	for _, fp := range [][2]string{{"tikvclient/fastBackoffBySkipSleep", "return"}, {"tikvclient/injectLiveness", `return("reachable")`}} {
		if err := failpoint.Enable(fp[0], fp[1]); err != nil {
			t.Fatal(err)
		}
		defer failpoint.Disable(fp[0])
	}
	rec := ev.For(t, "C11", rule)
	rapid.Check(t, func(t *rapid.T) {
		inner, cluster, pdc, err := mocktikv.NewTiKVAndPDClient("", nil)
		if err != nil {
			t.Fatalf("VERIF-INFRA: %v", err)
		}
		stores, _, _, _ := mocktikv.BootstrapWithMultiStores(cluster, 3)
		w := &world{t: t, cluster: cluster, model: map[string][]byte{}, stores: stores}
		w.net = &netClient{inner: inner, cluster: cluster, w: w}
		cache := locate.NewRegionCache(pdc)
		cli := &rawkv.Client{}
		probe := rawkv.ClientProbe{Client: cli}
		probe.SetRegionCache(cache)
		probe.SetPDClient(pdc)
		probe.SetRPCClient(w.net)
		cli.SetAtomicForCAS(rapid.Bool().Draw(t, "atomic"))
		// the checksum request carries no column family; the mock checksums "CF_DEFAULT" (its stand-in for TiKV's default cf)
		cli.SetColumnFamily("CF_DEFAULT")
		w.cli = cli
		// create the column family in the mock (its batch handlers index into a nil result for a cf that does not exist yet)
		if err := cli.Put(context.Background(), []byte("\x00init"), []byte("x")); err != nil {
			t.Fatalf("VERIF-INFRA: %v", err)
		}
		if err := cli.Delete(context.Background(), []byte("\x00init")); err != nil {
			t.Fatalf("VERIF-INFRA: %v", err)
		}
		defer func() {
			cache.Close()
			sim.CloseMock(inner)
		}()
		ctx := context.Background()
		// call wraps one API call: optional mid-call topology change + panic capture + interposer verdict
		call := func(name string, f func()) {
			w.net.n, w.net.gateAt, w.net.gate, w.net.fired = 0, 0, nil, false
			if rapid.IntRange(0, 3).Draw(t, "midcall") == 0 {
				w.net.gateAt = rapid.IntRange(1, 3).Draw(t, "gateat")
				w.net.gate = w.topo(t, "mid:")
			}
			w.ops = append(w.ops, name)
			func() {
				defer func() {
					if r := recover(); r != nil {
						w.fail("%s made the store panic: %v", name, r)
					}
				}()
				f()
			}()
			if w.net.fired {
				w.midCall = true
			}
			if w.net.viol != "" {
				w.fail("%s: %s", name, w.net.viol)
			}
		}
		t.Repeat(map[string]func(*rapid.T){
			"topology": func(t *rapid.T) { w.topo(t, "")() },
			"put": func(t *rapid.T) {
				k, v := w.key("k"), w.val()
				ttl := uint64(rapid.SampledFrom([]int{0, 0, 100}).Draw(t, "ttl"))
				call(fmt.Sprintf("put(%q,%s,ttl=%d)", k, v, ttl), func() {
					if err := cli.PutWithTTL(ctx, []byte(k), v, ttl); err != nil {
						w.fail("Put(%q) failed: %v", k, err)
					}
				})
				w.model[k] = v
			},
			"get": func(t *rapid.T) {
				k := w.key("k")
				call(fmt.Sprintf("get(%q)", k), func() {
					v, err := cli.Get(ctx, []byte(k))
					if err != nil {
						w.fail("Get(%q) failed: %v", k, err)
					}
					want, ok := w.model[k]
					if ok != (v != nil) || !bytes.Equal(v, want) {
						w.fail("Get(%q) = %q, model %q (present=%v)", k, v, want, ok)
					}
				})
			},
			"delete": func(t *rapid.T) {
				k := w.key("k")
				call(fmt.Sprintf("delete(%q)", k), func() {
					if err := cli.Delete(ctx, []byte(k)); err != nil {
						w.fail("Delete(%q) failed: %v", k, err)
					}
				})
				delete(w.model, k)
			},
			"batchGet": func(t *rapid.T) {
				n := rapid.IntRange(1, 8).Draw(t, "n")
				var keys [][]byte
				var ks []string
				for i := 0; i < n; i++ {
					k := w.key("k")
					if i > 0 && rapid.IntRange(0, 4).Draw(t, "dup") == 0 {
						k = ks[rapid.IntRange(0, len(ks)-1).Draw(t, "dupof")] // duplicate inside the batch
					}
					ks = append(ks, k)
					keys = append(keys, []byte(k))
					if w.isBorder(k) {
						w.borderAt = true
					}
				}
				call(fmt.Sprintf("batchGet(%q)", ks), func() {
					vals, err := cli.BatchGet(ctx, keys)
					if err != nil {
						w.fail("BatchGet(%q) failed: %v", ks, err)
					}
					if len(vals) != len(keys) {
						w.fail("BatchGet(%q) returned %d values for %d keys", ks, len(vals), len(keys))
					}
					for i, k := range ks {
						want, ok := w.model[k]
						// positional alignment; an absent key is nil (real TiKV) or empty (the mock): both mean absent
						if ok && !bytes.Equal(vals[i], want) || !ok && len(vals[i]) != 0 {
							w.fail("BatchGet(%q)[%d] (key %q) = %q, model %q (present=%v)", ks, i, k, vals[i], want, ok)
						}
					}
				})
			},
			"batchPut": func(t *rapid.T) {
				n := rapid.IntRange(1, 8).Draw(t, "n")
				var keys, vals [][]byte
				var ks []string
				seen := map[string]bool{}
				for i := 0; i < n; i++ {
					k := w.key("k")
					if seen[k] {
						continue // a batch put with one key twice has no defined winner
					}
					seen[k] = true
					ks = append(ks, k)
					keys = append(keys, []byte(k))
					vals = append(vals, w.val())
				}
				call(fmt.Sprintf("batchPut(%q)", ks), func() {
					if err := cli.BatchPut(ctx, keys, vals); err != nil {
						w.fail("BatchPut(%q) failed: %v", ks, err)
					}
				})
				for i, k := range ks {
					w.model[k] = vals[i]
				}
			},
			"bigBatch": func(t *rapid.T) {
				if rapid.IntRange(0, 5).Draw(t, "rare") != 0 {
					t.Skip()
				}
				w.bigBatch = true
				p := rapid.SampledFrom(alphabet).Draw(t, "prefix")
				n := rapid.SampledFrom([]int{513, 600, 1100}).Draw(t, "count")
				vlen := rapid.SampledFrom([]int{2, 40}).Draw(t, "vlen")
				var keys, vals [][]byte
				for i := 0; i < n; i++ {
					keys = append(keys, []byte(fmt.Sprintf("%s:%04d", p, i)))
					vals = append(vals, bytes.Repeat([]byte{byte('a' + i%26)}, vlen))
				}
				call(fmt.Sprintf("bigBatchPut(%s:*,%d,vlen=%d)", p, n, vlen), func() {
					if err := cli.BatchPut(ctx, keys, vals); err != nil {
						w.fail("BatchPut(big) failed: %v", err)
					}
				})
				for i := range keys {
					w.model[string(keys[i])] = vals[i]
				}
				call(fmt.Sprintf("bigBatchGet(%s:*,%d)", p, n), func() {
					got, err := cli.BatchGet(ctx, keys)
					if err != nil || len(got) != len(keys) {
						w.fail("BatchGet(big) = %d values, %v", len(got), err)
					}
					for i := range keys {
						if !bytes.Equal(got[i], vals[i]) {
							w.fail("BatchGet(big)[%d] key %q = %q, want %q", i, keys[i], got[i], vals[i])
						}
					}
				})
				if rapid.Bool().Draw(t, "thendelete") {
					half := keys[:n/2+1]
					call(fmt.Sprintf("bigBatchDelete(%s:*,%d)", p, len(half)), func() {
						if err := cli.BatchDelete(ctx, half); err != nil {
							w.fail("BatchDelete(big) failed: %v", err)
						}
					})
					for _, k := range half {
						delete(w.model, string(k))
					}
				}
			},
			"batchDelete": func(t *rapid.T) {
				n := rapid.IntRange(1, 6).Draw(t, "n")
				var keys [][]byte
				var ks []string
				for i := 0; i < n; i++ {
					k := w.key("k")
					ks = append(ks, k)
					keys = append(keys, []byte(k))
				}
				call(fmt.Sprintf("batchDelete(%q)", ks), func() {
					if err := cli.BatchDelete(ctx, keys); err != nil {
						w.fail("BatchDelete(%q) failed: %v", ks, err)
					}
				})
				for _, k := range ks {
					delete(w.model, k)
				}
			},
			"deleteRange": func(t *rapid.T) {
				s, e := w.key("s"), w.key("e")
				if e < s {
					s, e = e, s
				}
				if rapid.IntRange(0, 4).Draw(t, "unbounded") == 0 {
					e = ""
				}
				if w.isBorder(s) || w.isBorder(e) {
					w.borderAt = true
				}
				if w.spans(s, e) {
					w.multi = true
				}
				call(fmt.Sprintf("deleteRange(%q,%q)", s, e), func() {
					if err := cli.DeleteRange(ctx, []byte(s), []byte(e)); err != nil {
						w.fail("DeleteRange(%q,%q) failed: %v", s, e, err)
					}
				})
				for _, k := range w.rangeKeys(s, e) {
					delete(w.model, k)
				}
			},
			"scan": func(t *rapid.T) {
				s, e := w.key("s"), w.key("e")
				if e < s {
					s, e = e, s
				}
				if rapid.IntRange(0, 3).Draw(t, "unbounded") == 0 {
					e = ""
				}
				if rapid.IntRange(0, 5).Draw(t, "fromstart") == 0 {
					s = ""
				}
				limit := rapid.IntRange(0, 12).Draw(t, "limit")
				keyOnly := rapid.Bool().Draw(t, "keyonly")
				if w.isBorder(s) || w.isBorder(e) {
					w.borderAt = true
				}
				if w.spans(s, e) {
					w.multi = true
				}
				call(fmt.Sprintf("scan(%q,%q,limit=%d,keyOnly=%v)", s, e, limit, keyOnly), func() {
					var opts []rawkv.RawOption
					if keyOnly {
						opts = append(opts, rawkv.ScanKeyOnly())
					}
					ks, vs, err := cli.Scan(ctx, []byte(s), []byte(e), limit, opts...)
					if err != nil {
						w.fail("Scan failed: %v", err)
					}
					want := w.rangeKeys(s, e)
					if len(want) > limit {
						want = want[:limit]
					}
					w.cmpScan("Scan", ks, vs, want, keyOnly)
				})
			},
			"reverseScan": func(t *rapid.T) {
				s, e := w.key("upper"), w.key("lower")
				if s < e {
					s, e = e, s
				}
				if rapid.IntRange(0, 3).Draw(t, "tostart") == 0 {
					e = ""
				}
				limit := rapid.IntRange(0, 12).Draw(t, "limit")
				keyOnly := rapid.Bool().Draw(t, "keyonly")
				if w.isBorder(s) || w.isBorder(e) {
					w.borderAt = true
				}
				if w.spans(e, s) {
					w.multi = true
				}
				call(fmt.Sprintf("reverseScan(%q,%q,limit=%d)", s, e, limit), func() {
					var opts []rawkv.RawOption
					if keyOnly {
						opts = append(opts, rawkv.ScanKeyOnly())
					}
					ks, vs, err := cli.ReverseScan(ctx, []byte(s), []byte(e), limit, opts...)
					if err != nil {
						w.fail("ReverseScan failed: %v", err)
					}
					asc := w.rangeKeys(e, s) // [e, s)
					var want []string
					for i := len(asc) - 1; i >= 0 && len(want) < limit; i-- {
						want = append(want, asc[i])
					}
					w.cmpScan("ReverseScan", ks, vs, want, keyOnly)
				})
			},
			"checksum": func(t *rapid.T) {
				s, e := w.key("s"), w.key("e")
				if e < s {
					s, e = e, s
				}
				if rapid.IntRange(0, 3).Draw(t, "unbounded") == 0 {
					e = ""
				}
				if w.spans(s, e) {
					w.multi = true
				}
				call(fmt.Sprintf("checksum(%q,%q)", s, e), func() {
					got, err := cli.Checksum(ctx, []byte(s), []byte(e))
					if err != nil {
						w.fail("Checksum failed: %v", err)
					}
					var x, n, b uint64
					d := crc64.New(crc64.MakeTable(crc64.ECMA))
					for _, k := range w.rangeKeys(s, e) {
						d.Reset()
						d.Write([]byte(k))
						d.Write(w.model[k])
						x ^= d.Sum64()
						n++
						b += uint64(len(k) + len(w.model[k]))
					}
					if got.Crc64Xor != x || got.TotalKvs != n || got.TotalBytes != b {
						w.fail("Checksum(%q,%q) = {%x,%d,%d}, model {%x,%d,%d}", s, e, got.Crc64Xor, got.TotalKvs, got.TotalBytes, x, n, b)
					}
				})
			},
			"cas": func(t *rapid.T) {
				k, nv := w.key("k"), w.val()
				var prev []byte
				cur, exists := w.model[k]
				switch rapid.IntRange(0, 2).Draw(t, "prev") {
				case 0:
					prev = nil // expect absent
				case 1:
					prev = cur // expect the current value (nil if absent)
				default:
					prev = []byte("other")
				}
				call(fmt.Sprintf("cas(%q,prev=%q,new=%s)", k, prev, nv), func() {
					old, ok, err := cli.CompareAndSwap(ctx, []byte(k), prev, nv)
					if err != nil {
						if strings.Contains(err.Error(), "without enable atomic mode") {
							return
						}
						w.fail("CompareAndSwap failed: %v", err)
					}
					wantOK := (prev == nil && !exists) || (prev != nil && exists && bytes.Equal(prev, cur))
					if ok != wantOK {
						w.fail("CompareAndSwap(%q, prev=%q) swapped=%v, model says %v (current %q present=%v)", k, prev, ok, wantOK, cur, exists)
					}
					if exists != (old != nil) || (exists && !bytes.Equal(old, cur)) {
						w.fail("CompareAndSwap(%q) returned previous value %q, model %q (present=%v)", k, old, cur, exists)
					}
					if ok {
						w.model[k] = nv
					}
				})
			},
		})
		// final full scan equals the model
		w.net.gateAt = 0
		ks, vs, err := cli.Scan(ctx, nil, nil, rawkv.MaxRawKVScanLimit)
		if err != nil {
			w.fail("final Scan failed: %v", err)
		}
		w.cmpScan("final Scan", ks, vs, w.sortedKeys(), false)
		var shape []string
		for _, o := range w.ops {
			if i := strings.IndexByte(o, '('); i > 0 {
				o = o[:i]
			}
			shape = append(shape, o)
		}
		classes := []string{}
		for n, b := range map[string]bool{"border-at-bound": w.borderAt && w.multi, "topology-change-mid-call": w.midCall, "batch-limit-crossed": w.bigBatch, "multi-region-call": w.multi} {
			if b {
				classes = append(classes, n)
			}
		}
		sort.Strings(classes)
		ops := w.ops
		if len(ops) > 14 {
			ops = append(ops[:14:14], fmt.Sprintf("... %d more", len(w.ops)-14))
		}
		rec.Case(strings.Join(shape, ","), (w.borderAt && w.multi) || w.midCall || w.bigBatch, classes, ops)
	})
}

func (w *world) cmpScan(what string, ks, vs [][]byte, want []string, keyOnly bool) {
	if len(ks) != len(want) {
		w.fail("%s returned %d pairs %q, model %d %q", what, len(ks), ks, len(want), want)
	}
	for i, k := range want {
		if string(ks[i]) != k {
			w.fail("%s pair #%d is key %q, model %q (got %q want %q)", what, i, ks[i], k, ks, want)
		}
		if !keyOnly && !bytes.Equal(vs[i], w.model[k]) {
			w.fail("%s value of %q = %q, model %q", what, k, vs[i], w.model[k])
		}
	}
}
