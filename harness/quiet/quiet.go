// Package quiet silences client-go's global logger for harness processes (import for side effect).
package quiet

import (
	"github.com/pingcap/log"
	"go.uber.org/zap"
)

func init() {
	log.ReplaceGlobals(zap.NewNop(), &log.ZapProperties{Level: zap.NewAtomicLevelAt(zap.FatalLevel)})
}
