// Package prog generates and executes concurrent transaction programs (shared by C01, C04, C06).
package prog

import (
	"fmt"
	"runtime/debug"
	"sort"
	"strings"
	"time"

	"github.com/tikv/client-go/v2/config"
	"github.com/tikv/client-go/v2/kv"
	"github.com/tikv/client-go/v2/verif/sim"
	"pgregory.net/rapid"
)

var keyPool = []string{"a", "b", "b5", "c", "d", "e"}

// GenProgram draws a concurrent workload: 2-4 transactions over shared keys, interleaved step by step,
// with tolerated faults and gates on the multi-RPC calls.
// Options tune the generator.
type Options struct {
	Aggressive bool // pessimistic transactions also run aggressive-locking (fair locking) statement attempts
	WaitLocks  bool // lock calls may wait a few milliseconds instead of failing at once
	NoLoss     bool // no lost messages among the tolerated faults (region errors and gates only)
	NoReads    bool // fewer read steps
}

func Gen(t *rapid.T, backend sim.Backend, nClients int, opts ...Options) (keys []string, splits []string, steps []*sim.Step) {
	var o Options
	if len(opts) > 0 {
		o = opts[0]
	}
	nKeys := rapid.IntRange(2, 5).Draw(t, "nkeys")
	keys = append([]string{}, rapid.Permutation(keyPool).Draw(t, "keys")[:nKeys]...)
	sort.Strings(keys)
	nSplit := rapid.IntRange(0, 3).Draw(t, "nsplits")
	for i := 0; i < nSplit; i++ {
		k := rapid.SampledFrom(keyPool).Draw(t, "splitkey")
		if rapid.Bool().Draw(t, "offkey") {
			k += "0" // a border between data keys
		}
		splits = append(splits, k)
	}
	// unistore relies on the caller contract that a key which pessimistic transactions write WITHOUT locking it
	// (TiDB: non-unique index keys) is never pessimistically locked by anybody: meeting such a lock, its prewrite
	// reports it with ttl 0, and the resolver then removes the lock of a live transaction. So on unistore the keys of
	// a case are split once into "never locked" and "always locked first".
	uniUnlocked := map[string]bool{}
	if backend == sim.Uni {
		for _, k := range keys {
			if rapid.IntRange(0, 3).Draw(t, "unlockedkey") == 0 {
				uniUnlocked[k] = true
			}
		}
	}
	nTxn := rapid.IntRange(2, 4).Draw(t, "ntxn")
	key := func(name string) string { return rapid.SampledFrom(keys).Draw(t, name) }
	perTxn := make([][]*sim.Step, nTxn)
	for i := 0; i < nTxn; i++ {
		pess := rapid.Bool().Draw(t, "pessimistic")
		if o.NoReads && !pess {
			pess = rapid.Bool().Draw(t, "pessimistic2") // the clean-up paths of pessimistic transactions are the richer ones
		}
		b := &sim.Step{Txn: i, Op: "begin", Client: rapid.IntRange(0, nClients-1).Draw(t, "client"), Pessimistic: pess}
		// the commit mode is requested on both stores: mocktikv knows neither async commit nor 1PC and answers every
		// such prewrite with the fall-back form (no min-commit ts, no 1PC commit ts), so there the client's fall-back
		// paths run; unistore executes the modes
		{
			switch rapid.IntRange(0, 3).Draw(t, "mode") {
			case 1:
				b.Async = true
			case 2:
				b.OnePC = true
			case 3:
				b.Async, b.OnePC = true, true
			}
			b.Causal = rapid.IntRange(0, 4).Draw(t, "causal") == 0
			b.SchemaFail = rapid.IntRange(0, 9).Draw(t, "schemafail") == 0
			b.AssertLevel = rapid.SampledFrom([]int{0, 0, 1, 2, 2}).Draw(t, "assertlevel")
		}
		seq := []*sim.Step{b}
		// unistore answers the prewrite of a not-pessimistically-locked key that still carries the txn's own
		// pessimistic lock as a duplicate command without converting the lock (TiKV and mocktikv overwrite it), so
		// the asynchronous rollback of a failed LockKeys can then remove the only lock of a committing txn. On
		// unistore a pessimistic txn therefore never both locks and writes-without-locking one key: each key is
		// either in its unlocked set (written without lock, never locked) or always locked first.
		unlocked := map[string]bool{}
		insertedKeys := map[string]bool{}
		var writtenKeys []string // keys written so far by this transaction, in order
		if pess && backend == sim.Uni {
			unlocked = uniUnlocked // the same classes for every transaction of the case (see below)
		}
		lockable := func(name string) (string, bool) {
			var c []string
			for _, k := range keys {
				if !unlocked[k] {
					c = append(c, k)
				}
			}
			if len(c) == 0 {
				return "", false
			}
			return rapid.SampledFrom(c).Draw(t, name), true
		}
		nOps := rapid.IntRange(1, 6).Draw(t, "nops")
		for j := 0; j < nOps; j++ {
			ops := []string{"get", "get", "batchget", "iter", "iterrev", "set", "set", "set", "insert", "delete"}
			// unistore records the commit of a lock-only (Op_Lock) key only if it is the primary, so a resolver cannot
			// tell a committed lock-only secondary of an async-commit transaction from a missing one (TiKV writes a
			// Lock record): no lock-only keys there (no bare lock calls, no pessimistic insert-then-delete)
			if pess && backend != sim.Uni {
				ops = append(ops, "lock", "lock")
			}
			if !pess {
				ops = append(ops, "insert", "lock") // optimistic LockKeys: on unistore only for keys the transaction wrote (no lock-only keys there)
			}
			if pess && o.Aggressive && backend == sim.Uni {
				ops = append(ops, "aggr-start", "aggr-start")
			}
			if pess && o.Aggressive && backend != sim.Uni {
				ops = append(ops, "lock", "lock", "aggr-start", "aggr-retry", "aggr-retry", "aggr-done", "aggr-cancel")
			}
			if o.NoReads {
				ops = append(ops, "set", "delete", "insert")
				if pess && backend != sim.Uni {
					ops = append(ops, "lock", "lock", "lock")
				}
			}
			s := &sim.Step{Txn: i, Op: rapid.SampledFrom(ops).Draw(t, "op")}
			if backend == sim.Uni && s.Op == "iterrev" {
				// unistore's ReverseScan creates its iterator before setting the read ts and so returns versions
				// newer than the snapshot (a limitation of that third-party store): reverse scans run on mocktikv only
				s.Op = "iter"
			}
			switch s.Op {
			case "get":
				s.Keys = []string{key("k")}
			case "delete", "set", "insert":
				s.Keys = []string{key("k")}
				if s.Op != "delete" {
					s.Val = fmt.Sprintf("v%d.%d", i, j)
				}
				// assertion flags as a statement would put them (right or wrong: a refused assertion is a definite
				// commit failure); drawn also when the level is off, where they must not reach the wire
				switch rapid.IntRange(0, 5).Draw(t, "assert") {
				case 0:
					s.Assert = "exist"
				case 1:
					s.Assert = "notexist"
				case 2:
					if s.Op == "insert" {
						s.Assert = "notexist"
					}
				}
				if pess && backend == sim.Uni {
					if unlocked[s.Keys[0]] && s.Op == "insert" {
						s.Op = "set" // a pessimistic insert is a locked statement
					}
					if s.Op == "delete" && insertedKeys[s.Keys[0]] {
						s.Op, s.Val = "set", fmt.Sprintf("v%d.%d", i, j)
					}
					if s.Op == "insert" {
						insertedKeys[s.Keys[0]] = true
					}
					s.LockFirst = !unlocked[s.Keys[0]] && s.Op != "insert"
				} else {
					s.LockFirst = pess && s.Op != "insert" && rapid.IntRange(0, 3).Draw(t, "lockfirst") != 0
				}
			case "batchget":
				n := rapid.IntRange(1, 3).Draw(t, "n")
				for x := 0; x < n; x++ {
					s.Keys = append(s.Keys, key("k"))
				}
			case "iter", "iterrev":
				lo, hi := key("lo"), key("hi")
				if lo > hi {
					lo, hi = hi, lo
				}
				switch rapid.IntRange(0, 3).Draw(t, "bounds") {
				case 0:
					hi = ""
				case 1:
					hi += "\x00"
				}
				if s.Op == "iterrev" && hi == "" {
					// a reverse scan from the very end of the key space cannot locate the last region on a
					// multi-region layout (known finding C05/reverse-scan-from-end-of-keyspace): always bounded here
					hi = "~"
				}
				s.Lo, s.Hi = lo, hi
			case "lock":
				n := rapid.IntRange(1, 2).Draw(t, "n")
				for x := 0; x < n; x++ {
					if !pess && backend == sim.Uni {
						if len(writtenKeys) > 0 {
							s.Keys = append(s.Keys, rapid.SampledFrom(writtenKeys).Draw(t, "k"))
						}
					} else if k, ok := lockable("k"); ok {
						s.Keys = append(s.Keys, k)
					}
				}
				if len(s.Keys) == 0 {
					s.Op, s.Keys = "get", []string{key("k")}
					break
				}
				if o.WaitLocks && rapid.IntRange(0, 2).Draw(t, "wait") == 0 {
					s.WaitMs = int64(rapid.IntRange(1, 15).Draw(t, "waitms"))
				}
				switch rapid.IntRange(0, 3).Draw(t, "lockmode") {
				case 1:
					s.ReturnValues = true
				case 2:
					s.CheckExistence = true
				case 3:
					s.ReturnValues, s.LockOnlyIfExists = true, true
				}
			}
			seq = append(seq, s)
			if s.Op == "set" || s.Op == "insert" || s.Op == "delete" {
				writtenKeys = append(writtenKeys, s.Keys[0])
			}
			if s.Op == "insert" && !pess && rapid.IntRange(0, 2).Draw(t, "insert-lock") == 0 {
				// the statement shapes around an optimistic insert: the inserted key is locked (select for update) and
				// possibly deleted again within the transaction
				seq = append(seq, &sim.Step{Txn: i, Op: "lock", Keys: []string{s.Keys[0]}})
				if rapid.Bool().Draw(t, "insert-lock-delete") {
					seq = append(seq, &sim.Step{Txn: i, Op: "delete", Keys: []string{s.Keys[0]}})
				}
			}
			if s.Op == "aggr-start" {
				// a whole statement: 1-3 attempts of 1-2 lock calls over a small key set with varying options, ended by
				// Done or Cancel (the single aggr-* ops above still produce the irregular sequences)
				stmtKeys := []string{key("sk"), key("sk")}
				if backend == sim.Uni {
					// on unistore a pessimistic transaction never locks a key of its unlocked set (see above)
					stmtKeys = nil
					for x := 0; x < 2; x++ {
						if k, ok := lockable("sk"); ok {
							stmtKeys = append(stmtKeys, k)
						}
					}
					if len(stmtKeys) == 0 {
						seq[len(seq)-1].Op = "get"
						seq[len(seq)-1].Keys = []string{key("k")}
						continue
					}
				}
				first := true
				for a := rapid.IntRange(1, 3).Draw(t, "attempts"); a > 0; a-- {
					minCalls := 0 // a retried attempt may lock nothing (the statement found no row this time)
					if first {
						minCalls, first = 1, false
					}
					for c := rapid.IntRange(minCalls, 2).Draw(t, "calls"); c > 0; c-- {
						l := &sim.Step{Txn: i, Op: "lock", Keys: []string{rapid.SampledFrom(stmtKeys).Draw(t, "lk")}}
						if rapid.IntRange(0, 3).Draw(t, "two") == 0 {
							l.Keys = append(l.Keys, rapid.SampledFrom(stmtKeys).Draw(t, "lk2"))
						}
						switch rapid.IntRange(0, 3).Draw(t, "lockmode") {
						case 1:
							l.ReturnValues = true
						case 2:
							l.CheckExistence = true
						case 3:
							l.ReturnValues, l.LockOnlyIfExists = true, true
						}
						seq = append(seq, l)
					}
					if a > 1 {
						seq = append(seq, &sim.Step{Txn: i, Op: "aggr-retry"})
					}
				}
				stmtEnd := rapid.SampledFrom([]string{"aggr-done", "aggr-done", "aggr-cancel"}).Draw(t, "stmtend")
				seq = append(seq, &sim.Step{Txn: i, Op: stmtEnd})
				if backend == sim.Uni && stmtEnd == "aggr-done" {
					// the statement then writes the rows it locked, so that no lock-only key is left (see Options)
					seen := map[string]bool{}
					for _, k := range stmtKeys {
						if !seen[k] {
							seen[k] = true
							seq = append(seq, &sim.Step{Txn: i, Op: "set", Keys: []string{k}, Val: fmt.Sprintf("v%d.%d.s", i, j), LockFirst: true})
						}
					}
				}
			}
		}
		end := &sim.Step{Txn: i, Op: "commit"}
		if o.Aggressive {
			end.AggrDone = rapid.Bool().Draw(t, "aggrdone")
		}
		if rapid.IntRange(0, 5).Draw(t, "rollback") == 0 {
			end.Op = "rollback"
		}
		seq = append(seq, end)
		perTxn[i] = seq
	}
	// initial data: a set-up transaction (id nTxn) commits values on some keys before anything else runs, so that inserts
	// meet existing keys, deletes delete something and reads see an older version
	if rapid.IntRange(0, 2).Draw(t, "preload") != 0 {
		pre := []*sim.Step{{Txn: nTxn, Op: "begin", Client: 0}}
		for _, k := range keys {
			if rapid.Bool().Draw(t, "preloadkey") {
				pre = append(pre, &sim.Step{Txn: nTxn, Op: "set", Keys: []string{k}, Val: "init." + k})
			}
		}
		if len(pre) > 1 {
			steps = append(steps, append(pre, &sim.Step{Txn: nTxn, Op: "commit"})...)
		}
	}
	// interleave
	idx := make([]int, nTxn)
	for {
		var live []int
		for i := range perTxn {
			if idx[i] < len(perTxn[i]) {
				live = append(live, i)
			}
		}
		if len(live) == 0 {
			break
		}
		i := live[rapid.IntRange(0, len(live)-1).Draw(t, "next")]
		steps = append(steps, perTxn[i][idx[i]])
		idx[i]++
		// occasional topology change between steps
		if rapid.IntRange(0, 11).Draw(t, "topo") == 0 {
			if rapid.Bool().Draw(t, "leaderOrSplit") {
				steps = append(steps, &sim.Step{Op: "leader", Keys: []string{key("lk")}, Ms: int64(rapid.IntRange(0, 2).Draw(t, "peer"))})
			} else {
				steps = append(steps, &sim.Step{Op: "split", Keys: []string{key("sk") + "1"}})
			}
		}
	}
	// tolerated faults and gates on commits / locks
	for si, s := range steps {
		if s.Op != "commit" && s.Op != "lock" {
			continue
		}
		nf := rapid.IntRange(0, 2).Draw(t, "nfaults")
		if rapid.IntRange(0, 1).Draw(t, "anyfault") == 0 {
			nf = 0
		}
		for f := 0; f < nf; f++ {
			fs := sim.FaultSpec{Index: rapid.IntRange(0, 2).Draw(t, "findex")}
			if s.Op == "commit" {
				fs.Type = rapid.SampledFrom([]string{"Prewrite", "Prewrite", "Commit"}).Draw(t, "ftype")
			} else {
				fs.Type = "PessimisticLock"
			}
			fs.Action = rapid.SampledFrom([]string{"notLeader", "epochNotMatch", "serverIsBusy", "staleCommand", "gateBefore", "gateAfter", "gateBefore", "gateAfter", "dropResponse"}).Draw(t, "faction")
			if fs.Action == "dropResponse" && (fs.Type != "Prewrite" || o.NoLoss) {
				fs.Action = "serverIsBusy" // only losses that cannot move the commit point are "tolerated" here (C03 covers the others)
			}
			if strings.HasPrefix(fs.Action, "gate") {
				// nested step: a step of another transaction, or a topology change, while this RPC is parked
				var cands []*sim.Step
				for _, o := range steps[si+1:] {
					if o.Txn != s.Txn && o.Op != "begin" && len(cands) < 3 {
						cands = append(cands, o)
					}
				}
				switch {
				case len(cands) > 0 && rapid.IntRange(0, 3).Draw(t, "nestedkind") != 0:
					n := *cands[rapid.IntRange(0, len(cands)-1).Draw(t, "nested")]
					n.Faults = nil
					fs.Nested = &n
				case rapid.Bool().Draw(t, "nestedsplit"):
					fs.Nested = &sim.Step{Op: "split", Keys: []string{key("gk") + "2"}}
				default:
					fs.Nested = &sim.Step{Op: "leader", Keys: []string{key("gk")}, Ms: int64(rapid.IntRange(0, 2).Draw(t, "peer"))}
				}
			}
			s.Faults = append(s.Faults, fs)
		}
	}
	return
}

// CaseResult is the outcome of one executed program.
type CaseResult struct {
	W       *sim.World
	Truth   *sim.Truth
	Viol    []sim.Violation
	Infra   string
	Hung    string
	Void    string // the store implementation panicked (unistore substrate defect): the case says nothing
	Backend sim.Backend
	Batch1  bool
	NStores int
}

// RunProgram executes a program on a fresh cluster and checks the history.
func Run(backend sim.Backend, nStores int, batch1 bool, conc1 bool, keys, splits []string, steps []*sim.Step, rules map[string]bool) (res CaseResult) {
	res.Backend, res.Batch1, res.NStores = backend, batch1, nStores
	oldBatch := kv.TxnCommitBatchSize.Load()
	if batch1 {
		kv.TxnCommitBatchSize.Store(1)
	}
	defer kv.TxnCommitBatchSize.Store(oldBatch)
	cfg := *config.GetGlobalConfig()
	orig := cfg
	if conc1 {
		cfg.CommitterConcurrency = 1
	}
	config.StoreGlobalConfig(&cfg)
	defer config.StoreGlobalConfig(&orig)

	cl, err := sim.NewCluster(backend, nStores, 3)
	if err != nil {
		res.Infra = err.Error()
		return
	}
	defer cl.Close()
	defer func() { res.Void = cl.StorePanic() }()
	for _, k := range splits {
		cl.SplitAt(k)
	}
	var failMsg string
	w := sim.NewWorld(cl, keys, func(f string, a ...any) {
		if failMsg == "" {
			failMsg = fmt.Sprintf(f, a...)
		}
	})
	defer w.Release()
	res.W = w
	done := make(chan struct{})
	go func() {
		defer close(done)
		defer func() {
			if r := recover(); r != nil && failMsg == "" {
				failMsg = fmt.Sprintf("panic during step %q: %v\n%s", w.Log[len(w.Log)-1], r, debug.Stack())
			}
		}()
		for _, s := range steps {
			w.Exec(s)
			if failMsg != "" {
				return
			}
		}
		res.Truth, err = w.Finish()
	}()
	select {
	case <-done:
	case <-time.After(60 * time.Second):
		es := cl.Trace.Since(0)
		if len(es) > 40 {
			es = es[len(es)-40:]
		}
		var tail []string
		for _, e := range es {
			tail = append(tail, sim.DescribeEntry(e))
		}
		res.Hung = fmt.Sprintf("case did not finish within 60 s; log:\n    %s\n  last RPCs:\n    %s\n  goroutines:\n%s", strings.Join(w.Log, "\n    "), strings.Join(tail, "\n    "), sim.GoroutineDump())
		return
	}
	if r := cl.Runaway(); r != "" {
		res.Viol = append(res.Viol, sim.Violation{Rule: "termination", Msg: r})
		return
	}
	if failMsg != "" {
		res.Viol = append(res.Viol, sim.Violation{Rule: "actor", Msg: failMsg})
		return
	}
	if err != nil {
		res.Infra = "recovery: " + err.Error()
		return
	}
	res.Viol = sim.CheckHistory(w.Recs(), res.Truth, keys, rules, cl.Trace.Since(0)...)
	return
}

// String renders a program.
func String(steps []*sim.Step) string {
	var s []string
	for _, x := range steps {
		s = append(s, x.String())
	}
	return strings.Join(s, " ; ")
}
