// Package c07 decides property C07: a transaction reads its own writes over its
// snapshot (get, batch get, forward/reverse iteration) and staging / checkpoint
// undo restores exactly the earlier view.
package c07

import (
	"bytes"
	"context"
	"fmt"
	"sort"
	"strings"
	"testing"

	tikverr "github.com/tikv/client-go/v2/error"
	"github.com/tikv/client-go/v2/internal/unionstore"
	"github.com/tikv/client-go/v2/kv"
	"github.com/tikv/client-go/v2/txnkv/transaction"
	"github.com/tikv/client-go/v2/verif/ev"
	_ "github.com/tikv/client-go/v2/verif/quiet"
	"pgregory.net/rapid"
)

// ---------------------------------------------------------------- snapshot stub (arbitrary content)

type mapSnap struct {
	keys []string // sorted
	m    map[string][]byte
}

func newMapSnap(m map[string][]byte) *mapSnap {
	s := &mapSnap{m: m}
	for k := range m {
		s.keys = append(s.keys, k)
	}
	sort.Strings(s.keys)
	return s
}

func (s *mapSnap) Get(_ context.Context, k []byte, _ ...kv.GetOption) (kv.ValueEntry, error) {
	if v, ok := s.m[string(k)]; ok {
		return kv.NewValueEntry(v, 0), nil
	}
	return kv.ValueEntry{}, tikverr.ErrNotExist
}

func (s *mapSnap) BatchGet(_ context.Context, keys [][]byte, _ ...kv.BatchGetOption) (map[string]kv.ValueEntry, error) {
	r := map[string]kv.ValueEntry{}
	for _, k := range keys {
		if v, ok := s.m[string(k)]; ok {
			r[string(k)] = kv.NewValueEntry(v, 0)
		}
	}
	return r, nil
}

type sliceIter struct {
	kvs [][2][]byte
	i   int
}

func (it *sliceIter) Valid() bool   { return it.i < len(it.kvs) }
func (it *sliceIter) Key() []byte   { return it.kvs[it.i][0] }
func (it *sliceIter) Value() []byte { return it.kvs[it.i][1] }
func (it *sliceIter) Next() error   { it.i++; return nil }
func (it *sliceIter) Close()        {}

func (s *mapSnap) Iter(k, upper []byte) (unionstore.Iterator, error) {
	it := &sliceIter{}
	for _, key := range s.keys {
		if len(k) > 0 && key < string(k) {
			continue
		}
		if len(upper) > 0 && key >= string(upper) {
			break
		}
		it.kvs = append(it.kvs, [2][]byte{[]byte(key), s.m[key]})
	}
	return it, nil
}

func (s *mapSnap) IterReverse(k, lower []byte) (unionstore.Iterator, error) {
	it := &sliceIter{}
	for i := len(s.keys) - 1; i >= 0; i-- {
		key := s.keys[i]
		if len(k) > 0 && key >= string(k) {
			continue
		}
		if len(lower) > 0 && key < string(lower) {
			break
		}
		it.kvs = append(it.kvs, [2][]byte{[]byte(key), s.m[key]})
	}
	return it, nil
}

// ---------------------------------------------------------------- reference model

type logEntry struct {
	key  string
	val  []byte // empty = tombstone
	prev int
}

type checkpoint struct {
	pos  int
	real *unionstore.MemDBCheckpoint
}

type model struct {
	snap   map[string][]byte
	log    []logEntry
	head   map[string]int
	stages []int
	cps    []checkpoint
}

func (m *model) view() map[string][]byte {
	v := map[string][]byte{}
	for k, x := range m.snap {
		v[k] = x
	}
	for k, i := range m.head {
		if len(m.log[i].val) == 0 {
			delete(v, k)
		} else {
			v[k] = m.log[i].val
		}
	}
	return v
}

func (m *model) write(k string, v []byte) {
	prev := -1
	if i, ok := m.head[k]; ok {
		prev = i
	}
	m.log = append(m.log, logEntry{k, v, prev})
	m.head[k] = len(m.log) - 1
}

func (m *model) truncate(pos int) {
	for len(m.log) > pos {
		e := m.log[len(m.log)-1]
		m.log = m.log[:len(m.log)-1]
		if e.prev < 0 {
			delete(m.head, e.key)
		} else {
			m.head[e.key] = e.prev
		}
	}
	// checkpoints beyond the end of the log are gone
	live := m.cps[:0]
	for _, c := range m.cps {
		if c.pos <= pos {
			live = append(live, c)
		}
	}
	m.cps = live
}

func (m *model) topStart() int {
	if len(m.stages) == 0 {
		return 0
	}
	return m.stages[len(m.stages)-1]
}

// knownInPlacePattern: the buffers overwrite a same-length value in place when the old value was
// written in the current stage (or outside any stage); a checkpoint taken between the two writes then
// cannot restore the old value (known finding C07/checkpoint-inplace-overwrite). Returns true if a write
// of v to k now would hit exactly that pattern.
func (m *model) knownInPlacePattern(k string, v []byte) bool {
	i, ok := m.head[k]
	if !ok || len(m.log[i].val) == 0 || len(m.log[i].val) != len(v) || i < m.topStart() {
		return false
	}
	for _, c := range m.cps {
		if c.pos > i {
			return true
		}
	}
	return false
}

func sortedKeys(v map[string][]byte) []string {
	ks := make([]string, 0, len(v))
	for k := range v {
		ks = append(ks, k)
	}
	sort.Strings(ks)
	return ks
}

// ---------------------------------------------------------------- generators

var alpha = []byte{0x00, 0x01, 0x7f, 0x80, 0xfe, 0xff}

func genKey(pool []string) *rapid.Generator[string] {
	return rapid.Custom(func(t *rapid.T) string {
		switch rapid.IntRange(0, 5).Draw(t, "kk") {
		case 0, 1: // reuse an existing key (collisions matter)
			if len(pool) > 0 {
				return rapid.SampledFrom(pool).Draw(t, "pool")
			}
		case 2: // extend / truncate an existing key: forced prefix relations
			if len(pool) > 0 {
				p := rapid.SampledFrom(pool).Draw(t, "base")
				if rapid.Bool().Draw(t, "ext") || len(p) == 0 {
					return p + string([]byte{rapid.SampledFrom(alpha).Draw(t, "b")})
				}
				return p[:len(p)-1]
			}
		}
		n := rapid.IntRange(0, 3).Draw(t, "len")
		b := make([]byte, n)
		for i := range b {
			b[i] = rapid.SampledFrom(alpha).Draw(t, "b")
		}
		return string(b)
	})
}

func genVal() *rapid.Generator[[]byte] {
	return rapid.Custom(func(t *rapid.T) []byte {
		n := rapid.IntRange(1, 3).Draw(t, "vlen")
		b := make([]byte, n)
		for i := range b {
			b[i] = byte('a' + rapid.IntRange(0, 3).Draw(t, "vb"))
		}
		return b
	})
}

type caseStats struct {
	ops            []string
	delSnapThenIt  bool
	undoAfterWrite bool
	deletedSnapKey bool
	wroteSinceMark bool
	excluded       int
}

func collect(it unionstore.Iterator, err error, fail func(string, ...any)) (keys []string, vals [][]byte) {
	if err != nil {
		fail("iterator creation failed: %v", err)
	}
	defer it.Close()
	for it.Valid() {
		keys = append(keys, string(it.Key()))
		vals = append(vals, append([]byte{}, it.Value()...))
		if err := it.Next(); err != nil {
			fail("iterator Next failed: %v", err)
		}
		if len(keys) > 10000 {
			fail("iterator does not terminate")
		}
	}
	return
}

func TestUnionStoreModel(t *testing.T) {
	rec := ev.For(t, "C07", "rapid state machine on KVUnionStore(MemDB, map-backed snapshot with arbitrary drawn content) + BufferBatchGetter: set/delete/get/batch-get/iter(k,upper)/iter-reverse(k,lower)/staging/release/cleanup/checkpoint/revert over keys from {00,01,7f,80,fe,ff}* with forced prefix relations and the empty key, bounds drawn from keys, key+-00, empty; oracle: sorted-map snapshot + value log with stage/checkpoint marks, every read compared exactly (iteration = the model's filtered ordered list); non-trivial = a delete of a snapshot key followed by an iteration, or a cleanup/revert after >=1 write; distinct = op-kind sequence + snapshot size")
	rapid.Check(t, func(t *rapid.T) {
		fail := func(f string, a ...any) { t.Fatalf(f, a...) }
		// snapshot content
		snap := map[string][]byte{}
		var pool []string
		nsnap := rapid.IntRange(0, 8).Draw(t, "nsnap")
		for i := 0; i < nsnap; i++ {
			k := genKey(pool).Draw(t, "snapkey")
			snap[k] = []byte("S" + string(genVal().Draw(t, "snapval")))
			pool = append(pool, k)
		}
		ms := newMapSnap(snap)
		db := unionstore.NewMemDB()
		us := unionstore.NewUnionStore(db, ms)
		bg := transaction.NewBufferBatchGetter(db, ms)
		m := &model{snap: snap, head: map[string]int{}}
		st := &caseStats{}
		ctx := context.Background()
		bound := func(name string) []byte {
			switch rapid.IntRange(0, 4).Draw(t, name+"kind") {
			case 0:
				return nil
			case 1:
				return []byte{}
			case 2:
				return []byte(genKey(pool).Draw(t, name))
			case 3:
				return append([]byte(genKey(pool).Draw(t, name)), 0)
			default:
				k := []byte(genKey(pool).Draw(t, name))
				if len(k) > 0 && k[len(k)-1] > 0 {
					k[len(k)-1]--
				}
				return k
			}
		}
		checkGet := func(k string) {
			want, ok := m.view()[k]
			got, err := us.Get(ctx, []byte(k))
			if ok {
				if err != nil || !bytes.Equal(got.Value, want) {
					fail("Get(%x) = %q, %v; model says %q (ops %v)", k, got.Value, err, want, st.ops)
				}
			} else if !tikverr.IsErrNotFound(err) {
				fail("Get(%x) = %q, %v; model says not found (ops %v)", k, got.Value, err, st.ops)
			}
		}
		t.Repeat(map[string]func(*rapid.T){
			"set": func(t *rapid.T) {
				k := genKey(pool).Draw(t, "k")
				v := genVal().Draw(t, "v")
				if m.knownInPlacePattern(k, v) {
					// if the finding is not listed the run goes on and reports it as a violation
					if rec.Excluding("C07/checkpoint-inplace-overwrite") {
						v = append(v, 'x') // excluded by construction: avoid the same-length overwrite
						st.excluded++
					}
				}
				if err := us.GetMemBuffer().Set([]byte(k), v); err != nil {
					fail("Set failed: %v", err)
				}
				m.write(k, v)
				pool = append(pool, k)
				st.wroteSinceMark = true
				st.ops = append(st.ops, fmt.Sprintf("set(%x,%s)", k, v))
			},
			"delete": func(t *rapid.T) {
				k := genKey(pool).Draw(t, "k")
				if err := us.GetMemBuffer().Delete([]byte(k)); err != nil {
					fail("Delete failed: %v", err)
				}
				if _, ok := snap[k]; ok {
					st.deletedSnapKey = true
				}
				m.write(k, nil)
				pool = append(pool, k)
				st.wroteSinceMark = true
				st.ops = append(st.ops, fmt.Sprintf("del(%x)", k))
			},
			"get": func(t *rapid.T) {
				k := genKey(pool).Draw(t, "k")
				checkGet(k)
				st.ops = append(st.ops, fmt.Sprintf("get(%x)", k))
			},
			"batchget": func(t *rapid.T) {
				n := rapid.IntRange(0, 6).Draw(t, "n")
				var keys [][]byte
				for i := 0; i < n; i++ {
					keys = append(keys, []byte(genKey(pool).Draw(t, "k")))
				}
				got, err := bg.BatchGet(ctx, keys)
				if err != nil {
					fail("BatchGet failed: %v", err)
				}
				view := m.view()
				want := map[string][]byte{}
				for _, k := range keys {
					if v, ok := view[string(k)]; ok {
						want[string(k)] = v
					}
				}
				if len(got) != len(want) {
					fail("BatchGet(%x) returned %d entries %v, model %d (ops %v)", keys, len(got), got, len(want), st.ops)
				}
				for k, v := range want {
					if !bytes.Equal(got[k].Value, v) {
						fail("BatchGet[%x] = %q, model %q", k, got[k].Value, v)
					}
				}
				st.ops = append(st.ops, fmt.Sprintf("batchget(%d)", n))
			},
			"iter": func(t *rapid.T) {
				k, upper := bound("k"), bound("upper")
				it, err := us.Iter(k, upper)
				gk, gv := collect(it, err, fail)
				view := m.view()
				var wk []string
				for _, key := range sortedKeys(view) {
					if (len(k) == 0 || key >= string(k)) && (len(upper) == 0 || key < string(upper)) {
						wk = append(wk, key)
					}
				}
				compareIter("Iter", k, upper, gk, gv, wk, view, fail, st)
				if st.deletedSnapKey {
					st.delSnapThenIt = true
				}
				st.ops = append(st.ops, fmt.Sprintf("iter(%x,%x)", k, upper))
			},
			"iterReverse": func(t *rapid.T) {
				k, lower := bound("k"), bound("lower")
				it, err := us.IterReverse(k, lower)
				gk, gv := collect(it, err, fail)
				view := m.view()
				var wk []string
				sk := sortedKeys(view)
				for i := len(sk) - 1; i >= 0; i-- {
					key := sk[i]
					if (len(k) == 0 || key < string(k)) && (len(lower) == 0 || key >= string(lower)) {
						wk = append(wk, key)
					}
				}
				compareIter("IterReverse", k, lower, gk, gv, wk, view, fail, st)
				if st.deletedSnapKey {
					st.delSnapThenIt = true
				}
				st.ops = append(st.ops, fmt.Sprintf("iterrev(%x,%x)", k, lower))
			},
			"staging": func(t *rapid.T) {
				if len(m.stages) >= 4 {
					t.Skip()
				}
				h := db.Staging()
				m.stages = append(m.stages, len(m.log))
				if h != len(m.stages) {
					fail("Staging returned handle %d, expected %d", h, len(m.stages))
				}
				st.wroteSinceMark = false
				st.ops = append(st.ops, "staging")
			},
			"release": func(t *rapid.T) {
				if len(m.stages) == 0 {
					t.Skip()
				}
				db.Release(len(m.stages))
				m.stages = m.stages[:len(m.stages)-1]
				st.ops = append(st.ops, "release")
			},
			"cleanup": func(t *rapid.T) {
				if len(m.stages) == 0 {
					t.Skip()
				}
				if len(m.log) > m.topStart() {
					st.undoAfterWrite = true
				}
				db.Cleanup(len(m.stages))
				m.truncate(m.topStart())
				m.stages = m.stages[:len(m.stages)-1]
				st.ops = append(st.ops, "cleanup")
			},
			"checkpoint": func(t *rapid.T) {
				if len(m.cps) >= 4 {
					t.Skip()
				}
				m.cps = append(m.cps, checkpoint{pos: len(m.log), real: db.Checkpoint()})
				st.ops = append(st.ops, "checkpoint")
			},
			"revert": func(t *rapid.T) {
				// only checkpoints that are not older than the start of the current stage (what callers do)
				var ok []int
				for i, c := range m.cps {
					if c.pos >= m.topStart() {
						ok = append(ok, i)
					}
				}
				if len(ok) == 0 {
					t.Skip()
				}
				c := m.cps[ok[rapid.IntRange(0, len(ok)-1).Draw(t, "cp")]]
				if len(m.log) > c.pos {
					st.undoAfterWrite = true
				}
				db.RevertToCheckpoint(c.real)
				m.truncate(c.pos)
				st.ops = append(st.ops, fmt.Sprintf("revert(@%d)", c.pos))
			},
			"": func(t *rapid.T) {
				// full view after every step: every key ever touched plus the snapshot keys
				seen := map[string]bool{}
				for _, k := range pool {
					if !seen[k] {
						seen[k] = true
						checkGet(k)
					}
				}
			},
		})
		shape := make([]string, len(st.ops))
		for i, o := range st.ops {
			if j := strings.IndexByte(o, '('); j > 0 {
				o = o[:j]
			}
			shape[i] = o
		}
		var classes []string
		if st.delSnapThenIt {
			classes = append(classes, "delete-snapshot-key-then-iterate")
		}
		if st.undoAfterWrite {
			classes = append(classes, "undo-after-write")
		}
		if st.excluded > 0 {
			classes = append(classes, "excluded-known-inplace")
		}
		ops := st.ops
		if len(ops) > 14 {
			ops = append(ops[:14:14], fmt.Sprintf("... %d more", len(st.ops)-14))
		}
		rec.Case(fmt.Sprintf("%d|%s", len(snap), strings.Join(shape, ",")), st.delSnapThenIt || st.undoAfterWrite, classes,
			map[string]any{"snapshot_keys": hexKeys(sortedKeys(snap)), "ops": ops})
	})
}

func hexKeys(ks []string) []string {
	out := make([]string, len(ks))
	for i, k := range ks {
		out[i] = fmt.Sprintf("%x", k)
	}
	return out
}

func compareIter(name string, a, b []byte, gk []string, gv [][]byte, wk []string, view map[string][]byte, fail func(string, ...any), st *caseStats) {
	if len(gk) != len(wk) {
		fail("%s(%x,%x) yielded %d keys %x, model %d keys %x (ops %v)", name, a, b, len(gk), gk, len(wk), wk, st.ops)
	}
	for i := range wk {
		if gk[i] != wk[i] {
			fail("%s(%x,%x) key #%d = %x, model %x (got %x want %x; ops %v)", name, a, b, i, gk[i], wk[i], gk, wk, st.ops)
		}
		if !bytes.Equal(gv[i], view[wk[i]]) {
			fail("%s(%x,%x) value of %x = %q, model %q (ops %v)", name, a, b, gk[i], gv[i], view[wk[i]], st.ops)
		}
	}
}

// TestKnownCheckpointInPlace is the fixed regression form of the known finding; it prints KNOWN-FINDING while
// the defect is listed and present, and fails if it is present but not listed.
func TestKnownCheckpointInPlace(t *testing.T) {
	rec := ev.For(t, "C07", "fixed scenarios of the checkpoint/in-place-overwrite finding: (with and without an open stage) set k=aa; checkpoint; set k=bb (same length); revert => k must read aa; non-trivial = always")
	for _, staged := range []bool{false, true} {
		db := unionstore.NewMemDB()
		if staged {
			db.Staging()
		}
		_ = db.Set([]byte("k"), []byte("aa"))
		cp := db.Checkpoint()
		_ = db.Set([]byte("k"), []byte("bb"))
		db.RevertToCheckpoint(cp)
		v, err := db.Get(context.Background(), []byte("k"))
		if err != nil || string(v.Value) != "aa" {
			if !rec.IsKnown("C07/checkpoint-inplace-overwrite") {
				t.Fatalf("staged=%v: set k=aa; checkpoint; set k=bb; revert: Get(k) = %q, %v; want aa", staged, v.Value, err)
			}
		}
		rec.Case(fmt.Sprintf("staged=%v", staged), true, nil, map[string]any{"staged": staged, "after_revert": string(v.Value)})
	}
}
