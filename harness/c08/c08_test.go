// Package c08 decides property C08: the ART and RBT transaction buffers are
// observationally equivalent to each other and to a reference model (ordered map
// of key -> (value|tombstone, flags) with a value log, staging levels and checkpoints).
package c08

import (
	"bytes"
	"context"
	"fmt"
	"sort"
	"strings"
	"testing"

	tikverr "github.com/tikv/client-go/v2/error"
	"github.com/tikv/client-go/v2/internal/unionstore"
	"github.com/tikv/client-go/v2/internal/unionstore/arena"
	"github.com/tikv/client-go/v2/internal/unionstore/art"
	"github.com/tikv/client-go/v2/kv"
	"github.com/tikv/client-go/v2/verif/ev"
	_ "github.com/tikv/client-go/v2/verif/quiet"
	"pgregory.net/rapid"
)

// ---------------------------------------------------------------- subjects

type flagIter interface {
	Valid() bool
	Key() []byte
	Value() []byte
	Flags() kv.KeyFlags
	HasValue() bool
	Handle() arena.MemKeyHandle
	Next() error
	Close()
}

type tree interface {
	SelectValueHistory(key []byte, predicate func(value []byte) bool) ([]byte, error)
	GetKeyByHandle(handle arena.MemKeyHandle) []byte
	GetValueByHandle(handle arena.MemKeyHandle) ([]byte, bool)
}

type subject struct {
	name  string
	mb    unionstore.MemBuffer
	tr    tree
	iterF func(lower, upper []byte) flagIter
	iterR func(upper []byte) flagIter
	cps   []*unionstore.MemDBCheckpoint
}

func newSubjects() []*subject {
	a := unionstore.NewMemDB()
	rmb, r := unionstore.VerifNewRbtDB()
	return []*subject{
		{name: "ART", mb: a, tr: a.ART,
			iterF: func(l, u []byte) flagIter { return a.ART.IterWithFlags(l, u) },
			iterR: func(u []byte) flagIter { return a.ART.IterReverseWithFlags(u) }},
		{name: "RBT", mb: rmb, tr: r,
			iterF: func(l, u []byte) flagIter { return r.IterWithFlags(l, u) },
			iterR: func(u []byte) flagIter { return r.IterReverseWithFlags(u) }},
	}
}

// ---------------------------------------------------------------- reference model

type logEntry struct {
	key  string
	val  []byte // non-nil; empty = tombstone
	prev int
}

type node struct {
	flags   kv.KeyFlags
	head    int
	present bool
}

type model struct {
	nodes       map[string]*node
	log         []logEntry
	stages      []int
	cps         []int // positions of live checkpoints (parallel to subject.cps)
	lastCp      int   // position of the newest checkpoint handed out (-1 none)
	len, size   int
	dirty       bool
	entryLimit  uint64
	bufferLimit uint64
}

func newModel() *model {
	return &model{nodes: map[string]*node{}, lastCp: -1, entryLimit: ^uint64(0), bufferLimit: ^uint64(0)}
}

const maxKeyLen = 65535

type errClass string

const (
	errNone     errClass = ""
	errKeyLarge errClass = "key-too-large"
	errEntry    errClass = "entry-too-large"
	errTxn      errClass = "txn-too-large"
	errNilValue errClass = "cannot-set-nil"
	errNotFound errClass = "not-exist"
	errOther    errClass = "other"
)

func classify(err error) errClass {
	if err == nil {
		return errNone
	}
	var kl *tikverr.ErrKeyTooLarge
	var el *tikverr.ErrEntryTooLarge
	var tl *tikverr.ErrTxnTooLarge
	switch {
	case errorsAs(err, &kl):
		return errKeyLarge
	case errorsAs(err, &el):
		return errEntry
	case errorsAs(err, &tl):
		return errTxn
	case err == tikverr.ErrCannotSetNilValue:
		return errNilValue
	case tikverr.IsErrNotFound(err):
		return errNotFound
	}
	return errOther
}

func (m *model) topStart() int {
	if len(m.stages) == 0 {
		return -1 // no stage: everything may be modified in place
	}
	return m.stages[len(m.stages)-1]
}

// set is the reference semantics of Set/SetWithFlags/UpdateFlags/Delete(WithFlags):
// value nil = flags only, empty = tombstone.
func (m *model) set(key string, value []byte, ops []kv.FlagsOp) errClass {
	if len(key) > maxKeyLen {
		return errKeyLarge
	}
	if value != nil && uint64(len(key)+len(value)) > m.entryLimit {
		return errEntry
	}
	if len(m.stages) == 0 {
		m.dirty = true
	}
	n := m.nodes[key]
	if n == nil {
		n = &node{head: -1}
		m.nodes[key] = n
	}
	if !n.present {
		n.present = true
		m.len++
		m.size += len(key)
	}
	if value != nil {
		n.flags = kv.ApplyFlagsOps(n.flags, append([]kv.FlagsOp{kv.DelNeedConstraintCheckInPrewrite}, ops...)...)
	} else {
		n.flags = kv.ApplyFlagsOps(n.flags, ops...)
	}
	if n.flags.AndPersistent() != 0 {
		m.dirty = true
	}
	if value == nil {
		return errNone
	}
	oldLen := 0
	if n.head >= 0 {
		old := m.log[n.head].val
		oldLen = len(old)
		// in-place overwrite: same non-zero length, old value written in the current stage (or no stage)
		// and not older than the newest checkpoint
		if len(old) > 0 && len(old) == len(value) && n.head >= m.topStart() && n.head >= m.lastCp {
			m.log[n.head].val = append([]byte{}, value...)
			if uint64(m.size) > m.bufferLimit {
				return errTxn
			}
			return errNone
		}
	}
	m.size += len(value) - oldLen
	m.log = append(m.log, logEntry{key, append([]byte{}, value...), n.head})
	n.head = len(m.log) - 1
	if uint64(m.size) > m.bufferLimit {
		return errTxn
	}
	return errNone
}

func (m *model) truncate(pos int) {
	for len(m.log) > pos {
		e := m.log[len(m.log)-1]
		m.log = m.log[:len(m.log)-1]
		n := m.nodes[e.key]
		n.head = e.prev
		m.size -= len(e.val)
		if e.prev < 0 {
			kept := n.flags.AndPersistent()
			if kept == 0 {
				n.present = false
				n.flags = 0
				m.len--
				m.size -= len(e.key)
			} else {
				n.flags = kept
			}
		} else {
			m.size += len(m.log[e.prev].val)
		}
	}
	live := m.cps[:0]
	for _, c := range m.cps {
		if c <= pos {
			live = append(live, c)
		}
	}
	m.cps = live
	if m.lastCp > pos {
		m.lastCp = pos
	}
}

func (m *model) sortedKeys() []string {
	ks := make([]string, 0, len(m.nodes))
	for k := range m.nodes {
		ks = append(ks, k)
	}
	sort.Strings(ks)
	return ks
}

func (m *model) snapshotPos() int {
	if len(m.stages) > 0 {
		return m.stages[0]
	}
	return len(m.log)
}

// snapshotValue: newest value of the key written before pos.
func (m *model) snapshotValue(key string, pos int) ([]byte, bool) {
	n := m.nodes[key]
	if n == nil {
		return nil, false
	}
	for i := n.head; i >= 0; i = m.log[i].prev {
		if i < pos {
			return m.log[i].val, true
		}
	}
	return nil, false
}

type kvf struct {
	k        string
	v        []byte
	f        kv.KeyFlags
	hasValue bool
}

func inRange(k string, lower, upper []byte) bool {
	return (len(lower) == 0 || k >= string(lower)) && (len(upper) == 0 || k < string(upper))
}

// ---------------------------------------------------------------- generators

var alpha = []byte{0x00, 0x01, 0x7f, 0x80, 0xfe, 0xff}

var allOps = []kv.FlagsOp{kv.SetPresumeKeyNotExists, kv.DelPresumeKeyNotExists, kv.SetKeyLocked, kv.DelKeyLocked, kv.SetNeedLocked, kv.DelNeedLocked,
	kv.SetKeyLockedValueExists, kv.SetKeyLockedValueNotExists, kv.DelNeedCheckExists, kv.SetPrewriteOnly, kv.SetIgnoredIn2PC, kv.SetReadable,
	kv.SetNewlyInserted, kv.SetAssertExist, kv.SetAssertNotExist, kv.SetAssertUnknown, kv.SetAssertNone, kv.SetNeedConstraintCheckInPrewrite,
	kv.DelNeedConstraintCheckInPrewrite, kv.SetPreviousPresumeKNE, kv.SetKeyLockedInShareMode, kv.SetKeyLockedInExclusiveMode}

type world struct {
	t      *rapid.T
	subs   []*subject
	m      *model
	pool   []string
	ops    []string
	fanout bool
	longpx bool
	undo   bool
	big    bool
}

func (w *world) genKey() string {
	t := w.t
	switch rapid.IntRange(0, 7).Draw(t, "kk") {
	case 0, 1, 2:
		if len(w.pool) > 0 {
			return rapid.SampledFrom(w.pool).Draw(t, "pool")
		}
	case 3: // extend or cut an existing key (prefix relations)
		if len(w.pool) > 0 {
			p := rapid.SampledFrom(w.pool).Draw(t, "base")
			if rapid.Bool().Draw(t, "ext") || len(p) == 0 {
				return p + string([]byte{rapid.SampledFrom(alpha).Draw(t, "b")})
			}
			return p[:rapid.IntRange(0, len(p)-1).Draw(t, "cut")]
		}
	case 4: // long shared prefix (longer than the 20-byte in-node prefix), diverging late
		w.longpx = true
		n := rapid.SampledFrom([]int{9, 19, 20, 21, 22, 30, 41}).Draw(t, "pxlen")
		p := strings.Repeat(string([]byte{rapid.SampledFrom([]byte{0x00, 'p', 0xff}).Draw(t, "pxb")}), n)
		tail := rapid.SliceOfN(rapid.SampledFrom(alpha), 0, 2).Draw(t, "tail")
		return p + string(tail)
	}
	n := rapid.IntRange(0, 3).Draw(t, "len")
	b := make([]byte, n)
	for i := range b {
		b[i] = rapid.SampledFrom(alpha).Draw(t, "b")
	}
	return string(b)
}

func (w *world) genVal() []byte {
	t := w.t
	n := 1
	switch rapid.IntRange(0, 9).Draw(t, "vk") {
	case 0: // around the 4 KiB arena block boundary (header is 20 bytes)
		n = rapid.IntRange(4050, 4110).Draw(t, "vlen")
		w.big = true
	case 1:
		n = rapid.SampledFrom([]int{8170, 8200, 12300}).Draw(t, "vlen")
		w.big = true
	default:
		n = rapid.IntRange(1, 4).Draw(t, "vlen")
	}
	b := bytes.Repeat([]byte{byte('a' + rapid.IntRange(0, 5).Draw(t, "vb"))}, n)
	b[0] = byte('A' + rapid.IntRange(0, 3).Draw(t, "v0"))
	return b
}

func (w *world) genOps() []kv.FlagsOp {
	n := rapid.IntRange(0, 3).Draw(w.t, "nops")
	var ops []kv.FlagsOp
	for i := 0; i < n; i++ {
		ops = append(ops, rapid.SampledFrom(allOps).Draw(w.t, "op"))
	}
	return ops
}

func (w *world) bound(name string) []byte {
	t := w.t
	switch rapid.IntRange(0, 4).Draw(t, name+"kind") {
	case 0, 1:
		// "unbounded" is documented as nil; an empty non-nil bound is outside the documented domain
		// (the two buffers treat it differently) and is not generated.
		return nil
	case 2:
		if k := w.genKey(); len(k) > 0 {
			return []byte(k)
		}
		return nil
	case 3:
		return append([]byte(w.genKey()), 0)
	default:
		k := []byte(w.genKey())
		if len(k) > 0 && k[len(k)-1] > 0 {
			k[len(k)-1]--
		}
		if len(k) == 0 {
			return nil
		}
		return k
	}
}

func (w *world) fail(f string, a ...any) {
	ops := w.ops
	if len(ops) > 60 {
		ops = ops[len(ops)-60:]
	}
	w.t.Fatalf(f+"\n  ops(last %d): %v", append(a, len(ops), ops)...)
}

func (w *world) write(key string, value []byte, ops []kv.FlagsOp, api string) errClass {
	want := w.m.set(key, value, ops)
	for _, s := range w.subs {
		var err error
		switch api {
		case "set":
			if len(ops) == 0 {
				err = s.mb.Set([]byte(key), value)
			} else {
				err = s.mb.SetWithFlags([]byte(key), value, ops...)
			}
		case "delete":
			if len(ops) == 0 {
				err = s.mb.Delete([]byte(key))
			} else {
				err = s.mb.DeleteWithFlags([]byte(key), ops...)
			}
		case "flags":
			s.mb.UpdateFlags([]byte(key), ops...)
		}
		if api != "flags" && classify(err) != want {
			w.fail("%s.%s(%x, len %d, %v) returned %v, reference says %q", s.name, api, short(key), len(value), ops, err, want)
		}
	}
	w.pool = append(w.pool, key)
	return want
}

func short(k string) string {
	if len(k) > 12 {
		return fmt.Sprintf("%s..(%d)", k[:12], len(k))
	}
	return k
}

func errorsAs(err error, target any) bool {
	switch t := target.(type) {
	case **tikverr.ErrKeyTooLarge:
		e, ok := err.(*tikverr.ErrKeyTooLarge)
		*t = e
		return ok
	case **tikverr.ErrEntryTooLarge:
		e, ok := err.(*tikverr.ErrEntryTooLarge)
		*t = e
		return ok
	case **tikverr.ErrTxnTooLarge:
		e, ok := err.(*tikverr.ErrTxnTooLarge)
		*t = e
		return ok
	}
	return false
}

// ---------------------------------------------------------------- observations

func (w *world) checkScalars() {
	m := w.m
	for _, s := range w.subs {
		if s.mb.Len() != m.len {
			w.fail("%s.Len()=%d, reference %d", s.name, s.mb.Len(), m.len)
		}
		if s.mb.Size() != m.size {
			w.fail("%s.Size()=%d, reference %d", s.name, s.mb.Size(), m.size)
		}
		if s.mb.Dirty() != m.dirty {
			w.fail("%s.Dirty()=%v, reference %v", s.name, s.mb.Dirty(), m.dirty)
		}
	}
}

func (w *world) checkKey(key string) {
	m := w.m
	n := m.nodes[key]
	ctx := context.Background()
	for _, s := range w.subs {
		v, err := s.mb.Get(ctx, []byte(key))
		if n == nil || n.head < 0 {
			if !tikverr.IsErrNotFound(err) {
				w.fail("%s.Get(%x) = %q,%v; reference: not found", s.name, short(key), v.Value, err)
			}
		} else if err != nil || !bytes.Equal(v.Value, m.log[n.head].val) {
			w.fail("%s.Get(%x) = %.20q,%v; reference %.20q", s.name, short(key), v.Value, err, m.log[n.head].val)
		}
		f, err := s.mb.GetFlags([]byte(key))
		if n == nil || !n.present {
			if !tikverr.IsErrNotFound(err) {
				w.fail("%s.GetFlags(%x) = %b,%v; reference: not found", s.name, short(key), f, err)
			}
		} else if err != nil || f != n.flags {
			w.fail("%s.GetFlags(%x) = %b,%v; reference %b", s.name, short(key), f, err, n.flags)
		}
		sv, err := s.mb.SnapshotGetter().Get(ctx, []byte(key))
		want, ok := m.snapshotValue(key, m.snapshotPos())
		if !ok {
			if !tikverr.IsErrNotFound(err) {
				w.fail("%s.SnapshotGetter.Get(%x) = %q,%v; reference: not found", s.name, short(key), sv.Value, err)
			}
		} else if err != nil || !bytes.Equal(sv.Value, want) {
			w.fail("%s.SnapshotGetter.Get(%x) = %.20q,%v; reference %.20q", s.name, short(key), sv.Value, err, want)
		}
	}
}

func drain(it unionstore.Iterator, w *world, what string) (out []kvf) {
	defer it.Close()
	for it.Valid() {
		out = append(out, kvf{k: string(it.Key()), v: append([]byte{}, it.Value()...)})
		if err := it.Next(); err != nil {
			w.fail("%s: Next failed: %v", what, err)
		}
		if len(out) > 100000 {
			var tail []string
			for _, e := range out[len(out)-6:] {
				tail = append(tail, fmt.Sprintf("%x(len %d)", short(e.k), len(e.k)))
			}
			w.fail("%s does not terminate; last keys %v", what, tail)
		}
	}
	return
}

func (w *world) cmpList(what string, got, want []kvf, withFlags bool) {
	if len(got) != len(want) {
		w.fail("%s yielded %d entries, reference %d\n   got  %s\n   want %s", what, len(got), len(want), fmtList(got), fmtList(want))
	}
	for i := range want {
		if got[i].k != want[i].k || !bytes.Equal(got[i].v, want[i].v) || (withFlags && (got[i].f != want[i].f || got[i].hasValue != want[i].hasValue)) {
			w.fail("%s entry #%d = (%x,%.12q,%b,%v), reference (%x,%.12q,%b,%v)", what, i, short(got[i].k), got[i].v, got[i].f, got[i].hasValue,
				short(want[i].k), want[i].v, want[i].f, want[i].hasValue)
		}
	}
}

func fmtList(l []kvf) string {
	var sb strings.Builder
	for i, e := range l {
		if i > 20 {
			sb.WriteString("...")
			break
		}
		fmt.Fprintf(&sb, "%x=%.6q ", short(e.k), e.v)
	}
	return sb.String()
}

func rev(l []kvf) []kvf {
	o := make([]kvf, len(l))
	for i := range l {
		o[len(l)-1-i] = l[i]
	}
	return o
}

// checkIters compares every iteration API on [lower, upper).
func (w *world) checkIters(lower, upper []byte) {
	m := w.m
	var cur, withFlags, snap []kvf
	pos := m.snapshotPos()
	for _, k := range m.sortedKeys() {
		n := m.nodes[k]
		if !inRange(k, lower, upper) {
			continue
		}
		if n.head >= 0 {
			cur = append(cur, kvf{k: k, v: m.log[n.head].val})
		}
		if n.present {
			e := kvf{k: k, f: n.flags, hasValue: n.head >= 0}
			if n.head >= 0 {
				e.v = m.log[n.head].val
			}
			withFlags = append(withFlags, e)
		}
		if v, ok := m.snapshotValue(k, pos); ok {
			snap = append(snap, kvf{k: k, v: v})
		}
	}
	for _, s := range w.subs {
		it, err := s.mb.Iter(lower, upper)
		if err != nil {
			w.fail("%s.Iter: %v", s.name, err)
		}
		w.cmpList(fmt.Sprintf("%s.Iter(%x,%x)", s.name, lower, upper), drain(it, w, s.name+".Iter"), cur, false)
		it, err = s.mb.IterReverse(upper, lower)
		if err != nil {
			w.fail("%s.IterReverse: %v", s.name, err)
		}
		w.cmpList(fmt.Sprintf("%s.IterReverse(%x,%x)", s.name, upper, lower), drain(it, w, s.name+".IterReverse"), rev(cur), false)
		// flags iterators (+ handles)
		fi := s.iterF(lower, upper)
		var got []kvf
		for fi.Valid() {
			e := kvf{k: string(fi.Key()), f: fi.Flags(), hasValue: fi.HasValue()}
			if e.hasValue { // callers check HasValue first: Value() of a flags-only entry is undefined (RBT panics)
				e.v = append([]byte{}, fi.Value()...)
			}
			h := fi.Handle()
			if hk := s.tr.GetKeyByHandle(h); string(hk) != e.k {
				w.fail("%s.GetKeyByHandle = %x, iterator key %x", s.name, hk, e.k)
			}
			hv, ok := s.tr.GetValueByHandle(h)
			if ok != e.hasValue || (ok && !bytes.Equal(hv, e.v)) {
				w.fail("%s.GetValueByHandle(%x) = %.12q,%v; iterator says %.12q,%v", s.name, short(e.k), hv, ok, e.v, e.hasValue)
			}
			got = append(got, e)
			if err := fi.Next(); err != nil {
				w.fail("%s.IterWithFlags Next: %v", s.name, err)
			}
		}
		w.cmpList(fmt.Sprintf("%s.IterWithFlags(%x,%x)", s.name, lower, upper), got, withFlags, true)
		if len(lower) == 0 {
			fr := s.iterR(upper)
			got = nil
			for fr.Valid() {
				e := kvf{k: string(fr.Key()), f: fr.Flags(), hasValue: fr.HasValue()}
				if e.hasValue {
					e.v = append([]byte{}, fr.Value()...)
				}
				got = append(got, e)
				if err := fr.Next(); err != nil {
					w.fail("%s.IterReverseWithFlags Next: %v", s.name, err)
				}
			}
			w.cmpList(fmt.Sprintf("%s.IterReverseWithFlags(%x)", s.name, upper), got, rev(withFlags), true)
		}
		// snapshot iterators, all four routes
		w.cmpList(fmt.Sprintf("%s.SnapshotIter(%x,%x)", s.name, lower, upper), drain(s.mb.SnapshotIter(lower, upper), w, s.name+".SnapshotIter"), snap, false)
		w.cmpList(fmt.Sprintf("%s.SnapshotIterReverse(%x,%x)", s.name, upper, lower), drain(s.mb.SnapshotIterReverse(upper, lower), w, s.name+".SnapshotIterReverse"), rev(snap), false)
		if len(m.stages) > 0 {
			sn := s.mb.GetSnapshot()
			for _, reverse := range []bool{false, true} {
				want := snap
				if reverse {
					want = rev(snap)
				}
				var got []kvf
				if err := sn.ForEachInSnapshotRange(lower, upper, func(k, v []byte) (bool, error) {
					got = append(got, kvf{k: string(k), v: append([]byte{}, v...)})
					return false, nil
				}, reverse); err != nil {
					w.fail("%s.ForEachInSnapshotRange: %v", s.name, err)
				}
				w.cmpList(fmt.Sprintf("%s.ForEachInSnapshotRange(%x,%x,rev=%v)", s.name, lower, upper, reverse), got, want, false)
				w.cmpList(fmt.Sprintf("%s.BatchedSnapshotIter(%x,%x,rev=%v)", s.name, lower, upper, reverse),
					drain(sn.BatchedSnapshotIter(lower, upper, reverse), w, s.name+".BatchedSnapshotIter"), want, false)
			}
			sn.Close()
		}
	}
}

func (w *world) checkInspect() {
	m := w.m
	for h := 1; h <= len(m.stages); h++ {
		var want []kvf
		for i := len(m.log) - 1; i >= m.stages[h-1]; i-- {
			e := m.log[i]
			if n := m.nodes[e.key]; n.head == i {
				want = append(want, kvf{k: e.key, v: e.val, f: n.flags})
			}
		}
		for _, s := range w.subs {
			var got []kvf
			s.mb.InspectStage(h, func(k []byte, f kv.KeyFlags, v []byte) {
				got = append(got, kvf{k: string(k), v: append([]byte{}, v...), f: f})
			})
			if len(got) != len(want) {
				w.fail("%s.InspectStage(%d) yielded %d entries, reference %d: %s / %s", s.name, h, len(got), len(want), fmtList(got), fmtList(want))
			}
			for i := range want {
				if got[i].k != want[i].k || !bytes.Equal(got[i].v, want[i].v) || got[i].f != want[i].f {
					w.fail("%s.InspectStage(%d) entry #%d = (%x,%.12q,%b), reference (%x,%.12q,%b)", s.name, h, i, short(got[i].k), got[i].v, got[i].f, short(want[i].k), want[i].v, want[i].f)
				}
			}
		}
	}
}

func (w *world) checkHistory(key string, first byte) {
	m := w.m
	pred := func(v []byte) bool { return len(v) > 0 && v[0] == first }
	n := m.nodes[key]
	var want []byte
	wantErr := n == nil || n.head < 0
	if !wantErr {
		for i := n.head; i >= 0; i = m.log[i].prev {
			if pred(m.log[i].val) {
				want = m.log[i].val
				break
			}
		}
	}
	for _, s := range w.subs {
		got, err := s.tr.SelectValueHistory([]byte(key), pred)
		if wantErr {
			if !tikverr.IsErrNotFound(err) {
				w.fail("%s.SelectValueHistory(%x) = %q,%v; reference: not found", s.name, short(key), got, err)
			}
			continue
		}
		if err != nil || !bytes.Equal(got, want) || (got == nil) != (want == nil) {
			w.fail("%s.SelectValueHistory(%x, first=%c) = %.12q,%v; reference %.12q", s.name, short(key), first, got, err, want)
		}
	}
}

// ---------------------------------------------------------------- the state machine

const rule = "one rapid state machine drives ART-backed MemDB, the RBT-backed buffer (hook) and a reference model (ordered map + value log + stage/checkpoint marks) in lock-step: Set/SetWithFlags/UpdateFlags/Delete/DeleteWithFlags with all 22 FlagsOps, Staging/Release/Cleanup, Checkpoint/RevertToCheckpoint, fan-out phases (5/17/49/70 siblings), keys with shared prefixes around the 20-byte in-node prefix, prefix-related keys, empty key, 00/ff bytes, values around the 4 KiB arena block, entry/buffer size limits, MaxKeyLen+-1; observations after every step: Len/Size/Dirty + Get/GetFlags/SnapshotGetter on touched keys; as operations: Iter/IterReverse/IterWithFlags/IterReverseWithFlags(+handles)/SnapshotIter(+Reverse)/GetSnapshot().{ForEachInSnapshotRange,BatchedSnapshotIter}/InspectStage/SelectValueHistory with drawn bounds; non-trivial = crosses a node-size boundary or splits a long prefix AND contains an undo (cleanup/revert after a write); distinct = op-kind sequence"

func TestBuffersModel(t *testing.T) {
	rec := ev.For(t, "C08", rule)
	rapid.Check(t, func(t *rapid.T) {
		w := &world{t: t, subs: newSubjects(), m: newModel()}
		m := w.m
		t.Repeat(map[string]func(*rapid.T){
			"set": func(t *rapid.T) {
				k, v, ops := w.genKey(), w.genVal(), w.genOps()
				w.ops = append(w.ops, fmt.Sprintf("set(%x,%c%d,%v)", short(k), v[0], len(v), ops))
				w.write(k, v, ops, "set")
			},
			"setEmpty": func(t *rapid.T) { // documented: empty value is refused
				k := w.genKey()
				for _, s := range w.subs {
					if err := s.mb.Set([]byte(k), nil); err != tikverr.ErrCannotSetNilValue {
						w.fail("%s.Set(k, nil) = %v, want ErrCannotSetNilValue", s.name, err)
					}
					if err := s.mb.SetWithFlags([]byte(k), []byte{}, kv.SetKeyLocked); err != tikverr.ErrCannotSetNilValue {
						w.fail("%s.SetWithFlags(k, empty) = %v, want ErrCannotSetNilValue", s.name, err)
					}
				}
			},
			"delete": func(t *rapid.T) {
				k, ops := w.genKey(), w.genOps()
				w.ops = append(w.ops, fmt.Sprintf("del(%x,%v)", short(k), ops))
				w.write(k, []byte{}, ops, "delete")
			},
			"flags": func(t *rapid.T) {
				k, ops := w.genKey(), w.genOps()
				w.ops = append(w.ops, fmt.Sprintf("flags(%x,%v)", short(k), ops))
				w.write(k, nil, ops, "flags")
			},
			"fanout": func(t *rapid.T) {
				if len(m.nodes) > 400 {
					t.Skip()
				}
				w.fanout = true
				p := w.genKey()
				n := rapid.SampledFrom([]int{5, 17, 49, 70}).Draw(t, "siblings")
				start := rapid.IntRange(0, 255-n).Draw(t, "from")
				w.ops = append(w.ops, fmt.Sprintf("fanout(%x,%d)", short(p), n))
				for i := 0; i < n; i++ {
					w.write(p+string([]byte{byte(start + i)}), []byte{'F', byte('a' + i%7)}, nil, "set")
				}
			},
			"staging": func(t *rapid.T) {
				if len(m.stages) >= 4 {
					t.Skip()
				}
				m.stages = append(m.stages, len(m.log))
				for _, s := range w.subs {
					if h := s.mb.Staging(); h != len(m.stages) {
						w.fail("%s.Staging() = %d, want %d", s.name, h, len(m.stages))
					}
				}
				w.ops = append(w.ops, "staging")
			},
			"release": func(t *rapid.T) {
				if len(m.stages) == 0 {
					t.Skip()
				}
				h := len(m.stages)
				if h == 1 && len(m.log) != m.stages[0] {
					m.dirty = true
				}
				m.stages = m.stages[:h-1]
				for _, s := range w.subs {
					s.mb.Release(h)
				}
				w.ops = append(w.ops, "release")
			},
			"cleanup": func(t *rapid.T) {
				if len(m.stages) == 0 {
					t.Skip()
				}
				h := len(m.stages)
				if len(m.log) > m.stages[h-1] {
					w.undo = true
				}
				m.truncate(m.stages[h-1])
				m.stages = m.stages[:h-1]
				for _, s := range w.subs {
					s.mb.Cleanup(h)
					s.cps = s.cps[:len(m.cps)]
				}
				w.ops = append(w.ops, "cleanup")
			},
			"checkpoint": func(t *rapid.T) {
				if len(m.cps) >= 4 {
					t.Skip()
				}
				// checkpoints are kept sorted by position: drop the ones that were cut off, append the new one
				m.cps = append(m.cps, len(m.log))
				m.lastCp = len(m.log)
				for _, s := range w.subs {
					s.cps = append(s.cps[:len(m.cps)-1], s.mb.Checkpoint())
				}
				w.ops = append(w.ops, "checkpoint")
			},
			"revert": func(t *rapid.T) {
				top := m.topStart()
				var ok []int
				for i, c := range m.cps {
					if c >= top {
						ok = append(ok, i)
					}
				}
				if len(ok) == 0 {
					t.Skip()
				}
				i := ok[rapid.IntRange(0, len(ok)-1).Draw(t, "cp")]
				pos := m.cps[i]
				if len(m.log) > pos {
					w.undo = true
				}
				for _, s := range w.subs {
					s.mb.RevertToCheckpoint(s.cps[i])
				}
				m.truncate(pos)
				for _, s := range w.subs {
					s.cps = s.cps[:len(m.cps)]
				}
				w.ops = append(w.ops, fmt.Sprintf("revert(@%d)", pos))
			},
			"iters": func(t *rapid.T) {
				lower, upper := w.bound("lower"), w.bound("upper")
				w.ops = append(w.ops, fmt.Sprintf("iters(%x,%x)", lower, upper))
				w.checkIters(lower, upper)
			},
			"inspect": func(t *rapid.T) {
				w.ops = append(w.ops, "inspect")
				w.checkInspect()
			},
			"history": func(t *rapid.T) {
				k := w.genKey()
				first := byte('A' + rapid.IntRange(0, 5).Draw(t, "first"))
				w.ops = append(w.ops, fmt.Sprintf("history(%x,%c)", short(k), first))
				w.checkHistory(k, first)
			},
			"limits": func(t *rapid.T) {
				el := uint64(rapid.SampledFrom([]int{3, 4, 10, 4100, 0}).Draw(t, "entrylimit"))
				bl := uint64(rapid.SampledFrom([]int{0, 0, 30, 500, 9000}).Draw(t, "bufferlimit"))
				if el == 0 {
					el = ^uint64(0)
				}
				if bl == 0 {
					bl = ^uint64(0)
				}
				m.entryLimit, m.bufferLimit = el, bl
				for _, s := range w.subs {
					s.mb.SetEntrySizeLimit(el, bl)
				}
				w.ops = append(w.ops, fmt.Sprintf("limits(%d,%d)", int64(el), int64(bl)))
			},
			"staleIterator": func(t *rapid.T) {
				// documented for the ART MemDB: an iterator used after a write panics
				a := w.subs[0]
				it, err := a.mb.Iter(nil, nil)
				if err != nil {
					w.fail("Iter: %v", err)
				}
				k, v := w.genKey(), w.genVal()
				w.ops = append(w.ops, fmt.Sprintf("staleiter+set(%x,%c%d)", short(k), v[0], len(v)))
				if res := w.write(k, v, nil, "set"); res != errNone && res != errTxn {
					return // the write was refused before it touched the buffer
				}
				panicked := func() (p bool) {
					defer func() {
						if recover() != nil {
							p = true
						}
					}()
					_ = it.Valid()
					_ = it.Next()
					return false
				}()
				if !panicked {
					w.fail("ART iterator was used after a write and did not fail")
				}
			},
			"": func(t *rapid.T) {
				w.checkScalars()
				seen := map[string]bool{}
				for i := len(w.pool) - 1; i >= 0 && len(seen) < 12; i-- {
					if !seen[w.pool[i]] {
						seen[w.pool[i]] = true
						w.checkKey(w.pool[i])
					}
				}
			},
		})
		// full comparison at the end of every case
		w.checkIters(nil, nil)
		w.checkInspect()
		for _, k := range m.sortedKeys() {
			w.checkKey(k)
		}
		shape := make([]string, len(w.ops))
		for i, o := range w.ops {
			if j := strings.IndexByte(o, '('); j > 0 {
				o = o[:j]
			}
			shape[i] = o
		}
		nt := (w.fanout || w.longpx) && w.undo
		var classes []string
		for name, b := range map[string]bool{"fanout": w.fanout, "long-prefix": w.longpx, "undo-after-write": w.undo, "block-crossing-value": w.big} {
			if b {
				classes = append(classes, name)
			}
		}
		sort.Strings(classes)
		ops := w.ops
		if len(ops) > 14 {
			ops = append(ops[:14:14], fmt.Sprintf("... %d more", len(w.ops)-14))
		}
		rec.Case(strings.Join(shape, ","), nt, classes, ops)
	})
}

var _ = art.New

// TestKeyLimit: keys of MaxKeyLen-1, MaxKeyLen, MaxKeyLen+1 on both buffers, inside and outside a stage, then full comparison.
func TestKeyLimit(t *testing.T) {
	rec := ev.For(t, "C08", "documented key-size limit on both buffers: keys of 65534, 65535 (accepted) and 65536 bytes (ErrKeyTooLarge), alone and next to ordinary keys, with staging+cleanup; all iterators compared with the model afterwards; non-trivial = always; distinct = (length, staged)")
	rapid.Check(t, func(t *rapid.T) {
		w := &world{t: t, subs: newSubjects(), m: newModel()}
		staged := rapid.Bool().Draw(t, "staged")
		w.write("a", []byte("1"), nil, "set")
		if staged {
			w.m.stages = append(w.m.stages, len(w.m.log))
			for _, s := range w.subs {
				s.mb.Staging()
			}
		}
		n := rapid.SampledFrom([]int{maxKeyLen - 1, maxKeyLen, maxKeyLen + 1}).Draw(t, "keylen")
		fill := rapid.SampledFrom([]byte{0x00, 'K', 0xff}).Draw(t, "fill")
		k := strings.Repeat(string([]byte{fill}), n)
		w.ops = append(w.ops, fmt.Sprintf("hugekey(%d,%x)", n, fill))
		w.write(k, []byte("v"), nil, "set")
		w.write(k[:100], []byte("w"), nil, "set")
		w.checkScalars()
		w.checkIters(nil, nil)
		w.checkIters([]byte(k[:n-1]), nil)
		if staged {
			w.m.truncate(w.m.stages[0])
			w.m.stages = nil
			for _, s := range w.subs {
				s.mb.Cleanup(1)
			}
			w.checkScalars()
			w.checkIters(nil, nil)
		}
		rec.Case(fmt.Sprintf("%d/%v/%x", n, staged, fill), true, nil, w.ops)
	})
}
