package scratch

import (
	"context"
	"testing"

	"github.com/tikv/client-go/v2/internal/unionstore"
)

func TestCp(t *testing.T) {
	db := unionstore.NewMemDB()
	h := db.Staging()
	db.Set([]byte("k"), []byte("aa"))
	cp := db.Checkpoint()
	db.Set([]byte("k"), []byte("bb"))
	db.RevertToCheckpoint(cp)
	v, err := db.Get(context.Background(), []byte("k"))
	t.Logf("after revert: %q %v", v.Value, err)
	db.Cleanup(h)
	db2 := unionstore.NewMemDB()
	db2.Set([]byte("k"), []byte("aa"))
	cp = db2.Checkpoint()
	db2.Set([]byte("k"), []byte("bb"))
	db2.RevertToCheckpoint(cp)
	v, err = db2.Get(context.Background(), []byte("k"))
	t.Logf("no stage, after revert: %q %v", v.Value, err)
}
