// Package c17 decides property C17: the local latch scheduler is exclusive,
// free of lost wake-ups/deadlock, and flags exactly the stale transactions.
//
// (a) method-granularity: the harness plays the scheduler goroutine through the
// build-tag hook and enumerates ALL interleavings of {arrive, release, wake}
// per configuration, comparing with a specification model after every step.
// (b) the real LatchesScheduler under goroutine stress.
package c17

import (
	"fmt"
	"github.com/tikv/client-go/v2/oracle"
	"math/rand"
	"os"
	"runtime"
	"sort"
	"strings"
	"sync"
	"sync/atomic"
	"testing"

	"github.com/tikv/client-go/v2/internal/latch"
	"github.com/tikv/client-go/v2/verif/ev"
	_ "github.com/tikv/client-go/v2/verif/quiet"
	"pgregory.net/rapid"
)

// ---------------------------------------------------------------- configuration

type config struct {
	Slots   uint     `json:"slots"`
	Keys    [][]int  `json:"keys"`   // per txn: sorted indexes into the pool
	Start   []uint64 `json:"start"`  // per txn
	Commit  []uint64 `json:"commit"` // per txn; > start
	Commits []bool   `json:"commits"`
	Wide    bool     `json:"wide,omitempty"` // keys index the 8-key pool (all in one slot of a 1-slot table)
}

var pool [][]byte // 4 keys: on a 2-slot table two of them collide, on a 1-slot table all do

// widePool: 8 keys for the recycling configurations (a slot recycles free, old nodes once it lists >= 5 keys)
var widePool = [][]byte{[]byte("A"), []byte("B"), []byte("C"), []byte("D"), []byte("E"), []byte("F"), []byte("G"), []byte("H")}

func poolOf(c *config) [][]byte {
	if c.Wide {
		return widePool
	}
	return pool
}

// recycleAge is the age (start ts of an arriving request minus the node's max commit ts, physical parts) from which
// the latch may drop a free node - and with it the record of its max commit ts - to bound memory (2 minutes).
const recycleAge = 2 * 60 * 1000

func init() {
	l := latch.NewLatches(2)
	var s0, s1 [][]byte
	for c := byte('a'); c <= 'z' && (len(s0) < 2 || len(s1) < 2); c++ {
		k := []byte{c}
		if l.VerifSlotID(k) == 0 && len(s0) < 2 {
			s0 = append(s0, k)
		} else if l.VerifSlotID(k) == 1 && len(s1) < 2 {
			s1 = append(s1, k)
		}
	}
	pool = append(append(pool, s0...), s1...)
	sort.Slice(pool, func(i, j int) bool { return string(pool[i]) < string(pool[j]) })
}

// ---------------------------------------------------------------- specification model

const (
	stNew = iota
	stBlocked
	stAcquired // success, holds all keys
	stStale
	stReleased
)

type mtxn struct {
	state int
	pos   int // number of latches passed (held), in key order
	woken bool
	ambig int // key (pool index) whose possibly-forgotten max commit ts made the last acquire report stale; -1 = none
}

type mkey struct {
	holder    int
	waiters   []int
	maxCommit uint64
	// mayForget: while the key was free, a request arrived whose start ts is >= 2 minutes above maxCommit: the
	// implementation may have recycled the node (it does when the slot lists >= 5 keys), losing maxCommit. Whether it
	// did is its choice; the model follows what the implementation reports for the next requester (see execute).
	mayForget bool
}

type model struct {
	cfg   *config
	txns  []mtxn
	keys  []mkey
	wake  []int // scheduler's pending wake-up list
	trace []string
	// realStale reports whether the implementation marked txn w stale (consulted only to resolve a mayForget choice)
	realStale func(w int) bool
}

func newModel(c *config) *model {
	m := &model{cfg: c, txns: make([]mtxn, len(c.Keys)), keys: make([]mkey, len(poolOf(c)))}
	for i := range m.keys {
		m.keys[i].holder = -1
	}
	for i := range m.txns {
		m.txns[i].ambig = -1
	}
	return m
}

// acquire continues txn i from its current position. Specification:
// keys are taken in order; reaching a key whose released max commit ts exceeds
// the requester's start ts makes it stale; a held key queues the requester (FIFO).
func (m *model) acquire(i int) int {
	t := &m.txns[i]
	if t.state == stStale {
		return 2
	}
	ks := m.cfg.Keys[i]
	t.ambig = -1
	for t.pos < len(ks) {
		k := &m.keys[ks[t.pos]]
		if k.maxCommit > m.cfg.Start[i] {
			if k.mayForget {
				t.ambig = ks[t.pos]
			}
			t.state = stStale
			return 2
		}
		if k.holder == -1 {
			k.holder = i
			t.pos++
			continue
		}
		k.waiters = append(k.waiters, i)
		t.state = stBlocked
		return 1
	}
	t.state = stAcquired
	return 0
}

// arrived notes that a request with start ts `start` reached the table: every free key of its slots whose max commit
// ts is >= 2 minutes older may have been recycled (all keys, conservatively: a 1-slot table, or the tolerance is
// simply never used).
func (m *model) arrived(start uint64) {
	for k := range m.keys {
		x := &m.keys[k]
		if x.holder == -1 && x.maxCommit != 0 && oracle.ExtractPhysical(start)-oracle.ExtractPhysical(x.maxCommit) >= recycleAge {
			x.mayForget = true
		}
	}
}

// forget applies the implementation's choice to have recycled key k and lets txn i continue from where it stood.
func (m *model) forget(i, k int) {
	m.keys[k].maxCommit, m.keys[k].mayForget = 0, false
	m.txns[i].state, m.txns[i].ambig = stNew, -1
}

func (m *model) release(i int) {
	t := &m.txns[i]
	ks := m.cfg.Keys[i]
	var commit uint64
	if t.state == stAcquired && m.cfg.Commits[i] {
		commit = m.cfg.Commit[i]
	}
	for t.pos > 0 {
		k := &m.keys[ks[t.pos-1]]
		t.pos--
		if k.holder != i {
			panic("model: releasing a key not held")
		}
		if commit > k.maxCommit {
			k.maxCommit = commit
			k.mayForget = false
		}
		k.holder = -1
		if len(k.waiters) > 0 {
			w := k.waiters[0]
			k.waiters = k.waiters[1:]
			m.wake = append(m.wake, w)
			if k.maxCommit > m.cfg.Start[w] && k.mayForget && m.realStale != nil && !m.realStale(w) {
				// the implementation had recycled the node (allowed, see mkey.mayForget): the old commit ts is gone
				k.maxCommit, k.mayForget = 0, false
			}
			if k.maxCommit > m.cfg.Start[w] {
				// the woken requester is stale; it parks on the latch until it is unlocked itself
				k.holder = w
				m.txns[w].pos++
				m.txns[w].state = stStale
			}
		}
	}
	t.state = stReleased
}

// ---------------------------------------------------------------- one execution

type event struct {
	Kind string `json:"e"` // arrive | release | wake
	Txn  int    `json:"t"`
}

func (e event) String() string { return fmt.Sprintf("%s(%d)", e.Kind, e.Txn) }

type violation struct {
	msg string
}

// execute runs the events on fresh real latches + model; returns the enabled next events.
func execute(c *config, evs []event) (enabled []event, v *violation) {
	real := latch.NewLatches(c.Slots)
	pool := poolOf(c)
	m := newModel(c)
	locks := make([]*latch.Lock, len(c.Keys))
	var realWake []*latch.Lock
	fail := func(f string, a ...any) *violation {
		return &violation{fmt.Sprintf(f, a...) + fmt.Sprintf(" | config %+v | events %v", *c, evs)}
	}
	idxOf := func(l *latch.Lock) int {
		for i, x := range locks {
			if x == l {
				return i
			}
		}
		return -1
	}
	defer func() {
		if r := recover(); r != nil {
			v = fail("panic: %v", r)
		}
	}()
	for _, e := range evs {
		i := e.Txn
		switch e.Kind {
		case "arrive":
			keys := make([][]byte, len(c.Keys[i]))
			for j, ki := range c.Keys[i] {
				keys[j] = pool[ki]
			}
			locks[i] = real.VerifGenLock(c.Start[i], keys)
			m.arrived(c.Start[i])
			got, want := real.VerifAcquire(locks[i]), m.acquire(i)
			for want == 2 && m.txns[i].ambig >= 0 && (got != want || locks[i].VerifAcquiredCount() > m.txns[i].pos) {
				// the implementation had recycled the node whose old commit ts would have made this request stale
				m.forget(i, m.txns[i].ambig)
				want = m.acquire(i)
			}
			if got != want {
				return nil, fail("arrive(%d): acquire returned %d, specification says %d (0 success,1 locked,2 stale)", i, got, want)
			}
		case "release":
			if m.txns[i].state == stAcquired && c.Commits[i] {
				locks[i].SetCommitTS(c.Commit[i])
			}
			realWake = real.VerifRelease(locks[i])
			m.realStale = func(w int) bool { return locks[w] != nil && locks[w].IsStale() }
			m.release(i)
			if len(realWake) != len(m.wake) {
				return nil, fail("release(%d): wake-up list has %d entries, specification %d", i, len(realWake), len(m.wake))
			}
			for j := range realWake {
				if idxOf(realWake[j]) != m.wake[j] {
					return nil, fail("release(%d): wakes txn %d, specification (FIFO per key) wakes %d", i, idxOf(realWake[j]), m.wake[j])
				}
			}
		case "wake":
			w := m.wake[0]
			m.wake = m.wake[1:]
			l := realWake[0]
			realWake = realWake[1:]
			m.arrived(c.Start[w])
			got, want := real.VerifAcquire(l), m.acquire(w)
			for want == 2 && m.txns[w].ambig >= 0 && (got != want || l.VerifAcquiredCount() > m.txns[w].pos) {
				m.forget(w, m.txns[w].ambig)
				want = m.acquire(w)
			}
			if got != want {
				return nil, fail("wake(%d): acquire returned %d, specification says %d", w, got, want)
			}
			m.txns[w].woken = true
		}
		// invariants after every step
		for k := range pool {
			h := real.VerifHolder(pool[k])
			if (h == nil) != (m.keys[k].holder == -1) || (h != nil && idxOf(h) != m.keys[k].holder) {
				return nil, fail("after %v: latch of key %q is held by txn %d, specification says %d", e, pool[k], idxOf(h), m.keys[k].holder)
			}
		}
		for j, l := range locks {
			if l == nil || m.txns[j].state == stReleased {
				continue
			}
			t := m.txns[j]
			if l.IsStale() != (t.state == stStale) {
				return nil, fail("after %v: txn %d IsStale=%v, specification %v (stale exactly when a requested key was released with commit ts > start ts)", e, j, l.IsStale(), t.state == stStale)
			}
			if l.VerifIsLocked() != (t.state == stBlocked) {
				return nil, fail("after %v: txn %d blocked=%v, specification %v", e, j, l.VerifIsLocked(), t.state == stBlocked)
			}
			if l.VerifAcquiredCount() != t.pos {
				return nil, fail("after %v: txn %d passed %d latches, specification %d", e, j, l.VerifAcquiredCount(), t.pos)
			}
			if t.state == stAcquired {
				for _, ki := range c.Keys[j] {
					if real.VerifHolder(pool[ki]) != l {
						return nil, fail("after %v: txn %d reported success but does not hold key %q", e, j, pool[ki])
					}
				}
			}
		}
	}
	// enabled events
	for i := range c.Keys {
		if m.txns[i].state == stNew && locks[i] == nil {
			enabled = append(enabled, event{"arrive", i})
		}
	}
	if len(m.wake) > 0 {
		enabled = append(enabled, event{"wake", m.wake[0]})
	} else {
		for i := range c.Keys {
			st := m.txns[i].state
			if st != stAcquired && st != stStale {
				continue
			}
			// a woken stale/acquired txn only learns of it after the scheduler's acquire (wake) ran
			if inList(m.wake, i) {
				continue
			}
			if st == stStale && m.txns[i].pendingWake(m, i) {
				continue
			}
			enabled = append(enabled, event{"release", i})
		}
	}
	if len(enabled) == 0 {
		for i := range c.Keys {
			if m.txns[i].state != stReleased {
				return nil, fail("terminal state with txn %d not finished (state %d): lost wake-up or deadlock", i, m.txns[i].state)
			}
		}
		for k := range pool {
			if m.keys[k].holder != -1 || len(m.keys[k].waiters) != 0 {
				return nil, fail("terminal state with key %q still held/waited", pool[k])
			}
		}
	}
	return enabled, nil
}

func inList(l []int, x int) bool {
	for _, y := range l {
		if y == x {
			return true
		}
	}
	return false
}

// pendingWake: a txn made stale inside release() is still blocked in wg.Wait until the
// scheduler's wake step runs; it cannot call UnLock before. (wake list empty here, so false.)
func (t *mtxn) pendingWake(m *model, i int) bool { return inList(m.wake, i) }

// explore enumerates all interleavings by DFS with prefix re-execution.
func explore(c *config, prefix []event, leaves *int, steps *int, maxLeaves int) *violation {
	enabled, v := execute(c, prefix)
	*steps += len(prefix)
	if v != nil {
		return v
	}
	if len(enabled) == 0 {
		*leaves++
		return nil
	}
	for _, e := range enabled {
		if maxLeaves > 0 && *leaves >= maxLeaves {
			return nil
		}
		if v := explore(c, append(prefix[:len(prefix):len(prefix)], e), leaves, steps, maxLeaves); v != nil {
			return v
		}
	}
	return nil
}

// ---------------------------------------------------------------- enumerators

func keySubsets(poolN, maxK int) [][]int {
	var out [][]int
	for mask := 1; mask < 1<<poolN; mask++ {
		var s []int
		for b := 0; b < poolN; b++ {
			if mask&(1<<b) != 0 {
				s = append(s, b)
			}
		}
		if len(s) <= maxK {
			out = append(out, s)
		}
	}
	return out
}

// tsOrders enumerates all assignments of distinct ranks 1..2n with start_i < commit_i.
func tsOrders(n int) [][2][]uint64 {
	var out [][2][]uint64
	perm := make([]int, 2*n) // slot -> which (txn, start|commit)
	used := make([]bool, 2*n)
	var rec func(pos int)
	rec = func(pos int) {
		if pos == 2*n {
			st, cm := make([]uint64, n), make([]uint64, n)
			for rank, x := range perm {
				if x%2 == 0 {
					st[x/2] = uint64(rank + 1)
				} else {
					cm[x/2] = uint64(rank + 1)
				}
			}
			out = append(out, [2][]uint64{st, cm})
			return
		}
		for x := 0; x < 2*n; x++ {
			if used[x] || (x%2 == 1 && !used[x-1]) {
				continue
			}
			used[x] = true
			perm[pos] = x
			rec(pos + 1)
			used[x] = false
		}
	}
	rec(0)
	return out
}

func shares(c *config) bool {
	seen := map[int]int{}
	for _, ks := range c.Keys {
		for _, k := range ks {
			seen[k]++
			if seen[k] > 1 {
				return true
			}
		}
	}
	return false
}

func reportViolation(t testing.TB, c *config, v *violation) {
	if p := os.Getenv("VERIF_REPLAY_OUT"); p != "" {
		_ = os.WriteFile(p, []byte(fmt.Sprintf("%s\n", v.msg)), 0o644)
		fmt.Printf("VERIF-REPLAY: %s\n", p)
	}
	t.Fatalf("%s", v.msg)
}

func enumerate(t *testing.T, rec *ev.Recorder, nTxn, maxKeys, poolN int) {
	subsets := keySubsets(poolN, maxKeys)
	orders := tsOrders(nTxn)
	shard, shards := ev.Shard()
	idx := make([]int, nTxn)
	n, totalLeaves, totalSteps := 0, 0, 0
	for {
		for _, slots := range []uint{1, 2} {
			for _, o := range orders {
				n++
				if n%shards != shard {
					continue
				}
				c := &config{Slots: slots, Start: o[0], Commit: o[1], Commits: make([]bool, nTxn)}
				for i := range idx {
					c.Keys = append(c.Keys, subsets[idx[i]])
					c.Commits[i] = true
				}
				leaves, steps := 0, 0
				if v := explore(c, nil, &leaves, &steps, 0); v != nil {
					reportViolation(t, c, v)
				}
				totalLeaves += leaves
				totalSteps += steps
				rec.Case(fmt.Sprintf("%v", *c), shares(c), []string{fmt.Sprintf("txns=%d", nTxn)}, map[string]any{"config": c, "interleavings": leaves})
			}
		}
		// next key assignment
		j := 0
		for j < nTxn {
			idx[j]++
			if idx[j] < len(subsets) {
				break
			}
			idx[j] = 0
			j++
		}
		if j == nTxn {
			break
		}
	}
	rec.Class("interleavings", totalLeaves)
	rec.Class("method_steps", totalSteps)
}

const ruleEnum = "configuration = (1|2 latch slots, key set per txn from a pool with slot collisions, relative order of all start/commit timestamps); for each configuration ALL interleavings of {txn arrives (acquire), holder unlocks (release), scheduler wakes next waiter (acquire)} are enumerated by DFS at method granularity and compared step by step with a FIFO-per-key specification model (holders, stale flag, blocked flag, wake-up list, progress); terminal states must have every txn finished; non-trivial = >=2 txns share a key; distinct = distinct configurations"

// TestEnumSmall: exhaustive over all configurations of <=2 txns x <=3 keys of a 4-key pool (quick tier).
func TestEnumSmall(t *testing.T) {
	rec := ev.For(t, "C17", ruleEnum+" [exhaustive: 1..2 txns x <=3 keys from 4-key pool x all ts orders x {1,2} slots]")
	enumerate(t, rec, 1, 3, 4)
	enumerate(t, rec, 2, 3, 4)
	rec.SetExhaustive(true)
}

// TestEnum3: exhaustive over 3 txns x <=2 keys of a 3-key pool x all 90 timestamp orders x {1,2} slots (sharded).
func TestEnum3(t *testing.T) {
	rec := ev.For(t, "C17", ruleEnum+" [exhaustive: 3 txns x <=2 keys from 3-key pool x all 90 ts orders x {1,2} slots]")
	enumerate(t, rec, 3, 2, 3)
	rec.SetExhaustive(true)
}

// TestSampled: rapid-sampled configurations up to the full bound (4 txns x 3 keys), interleavings exhaustive per configuration.
func TestSampled(t *testing.T) {
	rec := ev.For(t, "C17", ruleEnum+" [rapid-sampled configurations: 2..4 txns x 1..3 keys from the 4-key pool, some holders not committing; interleavings exhaustive per configuration (capped at 20000 leaves)]")
	subsets := keySubsets(4, 3)
	rapid.Check(t, func(t *rapid.T) {
		n := rapid.IntRange(2, 4).Draw(t, "txns")
		c := &config{Slots: uint(rapid.IntRange(1, 2).Draw(t, "slots"))}
		// bias towards sharing: draw a hot key that every txn includes with probability 1/2
		hot := rapid.IntRange(0, 3).Draw(t, "hot")
		for i := 0; i < n; i++ {
			s := append([]int{}, subsets[rapid.IntRange(0, len(subsets)-1).Draw(t, "keys")]...)
			if rapid.Bool().Draw(t, "withhot") && !inList(s, hot) && len(s) < 3 {
				s = append(s, hot)
				sort.Ints(s)
			}
			c.Keys = append(c.Keys, s)
			c.Commits = append(c.Commits, rapid.IntRange(0, 4).Draw(t, "commits") != 0)
		}
		ranks := rapid.Permutation(seq(2*n)).Draw(t, "tsorder")
		c.Start, c.Commit = make([]uint64, n), make([]uint64, n)
		for i := 0; i < n; i++ {
			a, b := uint64(ranks[2*i]+1), uint64(ranks[2*i+1]+1)
			if a > b {
				a, b = b, a
			}
			c.Start[i], c.Commit[i] = a, b
		}
		leaves, steps := 0, 0
		if v := explore(c, nil, &leaves, &steps, 20000); v != nil {
			t.Fatalf("%s", v.msg)
		}
		rec.Class("interleavings", leaves)
		rec.Case(fmt.Sprintf("%v", *c), shares(c), []string{fmt.Sprintf("txns=%d", n), fmt.Sprintf("capped=%v", leaves >= 20000)},
			map[string]any{"config": c, "interleavings": leaves})
	})
}

// TestRecycling: configurations in which the latch's memory bound is reached - a 1-slot table, 6..9 transactions over an
// 8-key pool, TSO-scale timestamps in three epochs more than two minutes apart - walked along one rapid-drawn
// interleaving each. The slot then recycles free nodes that are old enough, which must change nothing observable
// except that a max commit ts older than two minutes may be forgotten.
func TestRecycling(t *testing.T) {
	rec := ev.For(t, "C17", "recycling configurations: 1-slot table, 6-9 txns x 1-2 keys from an 8-key pool (so the slot lists >= 5 keys and recycles free nodes whose max commit ts is >= 2 min below the arriving start ts), TSO-scale timestamps in three epochs 130 s apart, some holders not committing; one rapid-drawn interleaving of {arrive, release, wake} per configuration, compared step by step with the FIFO-per-key specification model, which may forget a max commit ts only where the implementation is allowed to; non-trivial = an arrival found >= 5 keys listed and a later request touched a key listed before; distinct = configuration + interleaving")
	rapid.Check(t, func(t *rapid.T) {
		n := rapid.IntRange(6, 9).Draw(t, "txns")
		c := &config{Slots: 1, Wide: true}
		hot := rapid.IntRange(0, 7).Draw(t, "hot")
		base := uint64(400000) << 18 // physical part 400 s: a never-committed node is "old" for every arrival
		used := map[uint64]bool{}
		ts := func(name string, epoch int) uint64 {
			for {
				v := base + uint64(epoch)*(130000<<18) + uint64(rapid.IntRange(1, 40).Draw(t, name))
				if !used[v] {
					used[v] = true
					return v
				}
			}
		}
		for i := 0; i < n; i++ {
			ks := []int{rapid.IntRange(0, 7).Draw(t, "k")}
			if rapid.Bool().Draw(t, "two") {
				if k2 := rapid.IntRange(0, 7).Draw(t, "k2"); k2 != ks[0] {
					ks = append(ks, k2)
				}
			}
			if rapid.IntRange(0, 2).Draw(t, "withhot") == 0 && !inList(ks, hot) && len(ks) < 2 {
				ks = append(ks, hot)
			}
			sort.Ints(ks)
			c.Keys = append(c.Keys, ks)
			c.Commits = append(c.Commits, rapid.IntRange(0, 3).Draw(t, "commits") != 0)
			epoch := rapid.IntRange(0, 2).Draw(t, "epoch")
			a := ts("start", epoch)
			b := ts("commit", epoch+rapid.IntRange(0, 1).Draw(t, "commitepoch"))
			if a > b {
				a, b = b, a
			}
			c.Start, c.Commit = append(c.Start, a), append(c.Commit, b)
		}
		var evs []event
		listed, full, reuse := map[int]bool{}, false, false
		for step := 0; step < 200; step++ {
			enabled, v := execute(c, evs)
			if v != nil {
				t.Fatalf("%s", v.msg)
			}
			if len(enabled) == 0 {
				break
			}
			e := enabled[rapid.IntRange(0, len(enabled)-1).Draw(t, "next")]
			if e.Kind == "arrive" {
				if len(listed) >= 5 {
					full = true
				}
				for _, k := range c.Keys[e.Txn] {
					if full && listed[k] {
						reuse = true
					}
					listed[k] = true
				}
			}
			evs = append(evs, e)
		}
		rec.Case(fmt.Sprintf("%v %v", *c, evs), full && reuse, []string{fmt.Sprintf("txns=%d", n), fmt.Sprintf("slot-full=%v", full), fmt.Sprintf("reused-after-full=%v", reuse)},
			map[string]any{"config": c, "events": fmt.Sprint(evs)})
	})
}

func seq(n int) []int {
	s := make([]int, n)
	for i := range s {
		s[i] = i
	}
	return s
}

// ---------------------------------------------------------------- (b) real scheduler stress

// TestSchedulerStress drives the real LatchesScheduler from many goroutines.
func TestSchedulerStress(t *testing.T) {
	rec := ev.For(t, "C17", "real LatchesScheduler (scheduler goroutine, channels, wait groups) under N goroutines x M transactions with random key sets from a small pool on a 1..4-slot table and random yields; timestamps from one atomic counter (start at Lock, commit inside the critical section); oracle: per-key critical-section counter never exceeds 1, non-stale => every earlier holder of each of its keys committed at or below its start ts, stale => some earlier holder of one of its keys committed above its start ts, every Lock returns before a 20 s watchdog; non-trivial = round with >=2 goroutines and a shared pool; distinct = (round parameters, seed)")
	rounds := ev.Scale(60, 600)
	seed := ev.Seed()
	for r := 0; r < rounds; r++ {
		rng := rand.New(rand.NewSource(seed*100003 + int64(r)))
		nG := 2 + rng.Intn(14)
		nKeys := 1 + rng.Intn(5)
		slots := uint(1 + rng.Intn(4))
		perG := 20 + rng.Intn(80)
		maxK := 1 + rng.Intn(3)
		if err := stressRound(rng.Int63(), nG, nKeys, slots, perG, maxK); err != nil {
			t.Fatalf("round %d (goroutines=%d keys=%d slots=%d per=%d maxkeys=%d): %v", r, nG, nKeys, slots, perG, maxK, err)
		}
		rec.Case(fmt.Sprintf("%d/%d/%d/%d/%d/%d", seed, r, nG, nKeys, slots, perG), true, []string{fmt.Sprintf("goroutines=%d", nG)},
			map[string]any{"goroutines": nG, "keys": nKeys, "slots": slots, "txns_per_goroutine": perG, "max_keys_per_txn": maxK})
	}
}

type holdRec struct {
	start, commit uint64
	stale         bool
}

func stressRound(seed int64, nG, nKeys int, slots uint, perG, maxK int) error {
	s := latch.NewScheduler(slots)
	defer s.Close()
	var ts uint64 = 10
	inCS := make([]int32, nKeys)
	var logMu sync.Mutex
	hist := make([][]holdRec, nKeys) // per key: holders in critical-section order
	errCh := make(chan error, nG)
	var wg sync.WaitGroup
	for g := 0; g < nG; g++ {
		wg.Add(1)
		go func(g int) {
			defer wg.Done()
			rng := rand.New(rand.NewSource(seed + int64(g)*7919))
			for i := 0; i < perG; i++ {
				k := 1 + rng.Intn(maxK)
				if k > nKeys {
					k = nKeys
				}
				idx := rng.Perm(nKeys)[:k]
				keys := make([][]byte, k)
				for j, x := range idx {
					keys[j] = []byte{byte('a' + x)}
				}
				start := atomic.AddUint64(&ts, 1)
				if rng.Intn(3) == 0 {
					runtime.Gosched()
				}
				done := make(chan *latch.Lock, 1)
				go func() { done <- s.Lock(start, keys) }()
				l, ok := ev.Await(done, 600)
				if !ok {
					errCh <- fmt.Errorf("Lock(start=%d keys=%q) did not return within 60 s although all holders unlock: lost wake-up or deadlock", start, keys)
					return
				}
				if l.IsStale() {
					// must be justified by an earlier holder of one of the keys that committed above start
					logMu.Lock()
					ok := false
					for _, x := range idx {
						for _, h := range hist[x] {
							if h.commit > start {
								ok = true
							}
						}
					}
					logMu.Unlock()
					s.UnLock(l)
					if !ok {
						errCh <- fmt.Errorf("txn start=%d keys=%q reported stale but no earlier holder of its keys committed above its start ts", start, keys)
						return
					}
					continue
				}
				for _, x := range idx {
					if n := atomic.AddInt32(&inCS[x], 1); n != 1 {
						errCh <- fmt.Errorf("exclusivity broken: %d holders inside the critical section of key %c", n, 'a'+x)
						return
					}
				}
				if rng.Intn(2) == 0 {
					runtime.Gosched()
				}
				var commit uint64
				if rng.Intn(5) != 0 {
					commit = atomic.AddUint64(&ts, 1)
				}
				logMu.Lock()
				var bad error
				for _, x := range idx {
					for _, h := range hist[x] {
						if h.commit > start {
							bad = fmt.Errorf("txn start=%d acquired key %c non-stale although an earlier holder (start=%d) committed at %d > start", start, 'a'+x, h.start, h.commit)
						}
					}
					hist[x] = append(hist[x], holdRec{start: start, commit: commit})
				}
				logMu.Unlock()
				for _, x := range idx {
					atomic.AddInt32(&inCS[x], -1)
				}
				if commit != 0 {
					l.SetCommitTS(commit)
				}
				s.UnLock(l)
				if bad != nil {
					errCh <- bad
					return
				}
			}
		}(g)
	}
	wg.Wait()
	select {
	case err := <-errCh:
		return err
	default:
	}
	return nil
}

var _ = strings.Join
