package c15

import (
	"bytes"
	"context"
	"fmt"
	"sort"
	"strings"
	"sync"
	"testing"
	"time"

	"github.com/pingcap/failpoint"
	"github.com/pingcap/kvproto/pkg/keyspacepb"
	"github.com/pingcap/kvproto/pkg/kvrpcpb"
	"github.com/pingcap/kvproto/pkg/metapb"
	"github.com/tikv/client-go/v2/internal/apicodec"
	"github.com/tikv/client-go/v2/internal/locate"
	"github.com/tikv/client-go/v2/internal/mockstore/mocktikv"
	"github.com/tikv/client-go/v2/rawkv"
	"github.com/tikv/client-go/v2/tikv"
	"github.com/tikv/client-go/v2/tikvrpc"
	"github.com/tikv/client-go/v2/util"
	"github.com/tikv/client-go/v2/util/async"
	"github.com/tikv/client-go/v2/verif/ev"
	"github.com/tikv/client-go/v2/verif/sim"
	pd "github.com/tikv/pd/client"
	pdgc "github.com/tikv/pd/client/clients/gc"
	"github.com/tikv/pd/client/constants"
	"github.com/tikv/pd/client/pkg/caller"
	"pgregory.net/rapid"
)

// ksPD makes the mock PD answer keyspace lookups.
type ksPD struct {
	pd.Client
	metas map[string]*keyspacepb.KeyspaceMeta
}

func (p *ksPD) LoadKeyspace(ctx context.Context, name string) (*keyspacepb.KeyspaceMeta, error) {
	if m, ok := p.metas[name]; ok {
		return m, nil
	}
	return nil, fmt.Errorf("keyspace %q not found", name)
}
func (p *ksPD) WithCallerComponent(caller.Component) pd.Client { return p }

// the mock PD implements the GC state API for the null keyspace only
func (p *ksPD) GetGCStatesClient(uint32) pdgc.GCStatesClient {
	return p.Client.GetGCStatesClient(constants.NullKeyspaceID)
}
func (p *ksPD) GetGCInternalController(uint32) pdgc.InternalController {
	return p.Client.GetGCInternalController(constants.NullKeyspaceID)
}

// codecRPC applies a keyspace codec around the store client, as the production RPC client does.
type codecRPC struct {
	inner   *guard
	cluster *mocktikv.Cluster
	codec   apicodec.Codec
}

func (c *codecRPC) Close() error                              { return nil }
func (c *codecRPC) CloseAddr(string) error                    { return nil }
func (c *codecRPC) SetEventListener(tikv.ClientEventListener) {}
func (c *codecRPC) SendRequestAsync(ctx context.Context, addr string, req *tikvrpc.Request, cb async.Callback[*tikvrpc.Response]) {
	go func() { cb.Schedule(c.SendRequest(ctx, addr, req, tikv.ReadTimeoutShort)) }()
}
func (c *codecRPC) SendRequest(ctx context.Context, addr string, req *tikvrpc.Request, timeout time.Duration) (*tikvrpc.Response, error) {
	enc, err := c.codec.EncodeRequest(req)
	if err != nil {
		return nil, err
	}
	var resp *tikvrpc.Response
	if enc.Type == tikvrpc.CmdRawDeleteRange {
		resp, err = c.rawDeleteRange(ctx, addr, enc, timeout)
	} else if enc.Type == tikvrpc.CmdRawScan {
		resp, err = c.rawScan(ctx, addr, enc, timeout)
	} else {
		resp, err = c.inner.SendRequest(ctx, addr, enc, timeout)
	}
	if err != nil {
		return nil, err
	}
	return c.codec.DecodeResponse(enc, resp)
}

// rawDeleteRange stands in for the mock's RawDeleteRange handler, whose containment check compares the raw request
// keys with region bounds byte-wise: under API v2 region bounds are memcomparable-encoded, so a range that starts at a
// region's start key looks "not in region" to it and it panics. The mock still validates the request context (a RawGet
// with the same context), the containment check is made here with encoded keys, and the mock's store deletes.
func (c *codecRPC) rawDeleteRange(ctx context.Context, addr string, enc *tikvrpc.Request, timeout time.Duration) (*tikvrpc.Response, error) {
	r := enc.RawDeleteRange()
	probe := tikvrpc.NewRequest(tikvrpc.CmdRawGet, &kvrpcpb.RawGetRequest{Key: r.StartKey, Cf: r.Cf}, enc.Context)
	presp, err := c.inner.SendRequest(ctx, addr, probe, timeout)
	if err != nil {
		return nil, err
	}
	if re, _ := presp.GetRegionError(); re != nil {
		return &tikvrpc.Response{Resp: &kvrpcpb.RawDeleteRangeResponse{RegionError: re}}, nil
	}
	meta, _ := c.cluster.GetRegion(enc.Context.GetRegionId())
	if meta == nil {
		panic("VERIF-INFRA: region vanished")
	}
	lo, hi := []byte(mocktikv.NewMvccKey(r.StartKey)), []byte(mocktikv.NewMvccKey(r.EndKey))
	if bytes.Compare(lo, meta.StartKey) < 0 || (len(meta.EndKey) > 0 && (len(r.EndKey) == 0 || bytes.Compare(hi, meta.EndKey) > 0)) {
		panic(fmt.Sprintf("RawDeleteRange [%x,%x) sent to region [%x,%x) which does not contain it", lo, hi, meta.StartKey, meta.EndKey))
	}
	c.inner.inner.MvccStore.(mocktikv.RawKV).RawDeleteRange(r.Cf, r.StartKey, r.EndKey)
	return &tikvrpc.Response{Resp: &kvrpcpb.RawDeleteRangeResponse{}}, nil
}

// rawScan stands in for the mock's RawScan handler for the same reason: it clamps the raw request range with the
// memcomparable-encoded region bounds byte-wise, so a key equal to a region's start key is returned by the region
// before it as well (forward) or by neither (reverse). Here the clamp uses the decoded bounds, as TiKV does.
func (c *codecRPC) rawScan(ctx context.Context, addr string, enc *tikvrpc.Request, timeout time.Duration) (*tikvrpc.Response, error) {
	r := enc.RawScan()
	probe := tikvrpc.NewRequest(tikvrpc.CmdRawGet, &kvrpcpb.RawGetRequest{Key: r.StartKey, Cf: r.Cf}, enc.Context)
	presp, err := c.inner.SendRequest(ctx, addr, probe, timeout)
	if err != nil {
		return nil, err
	}
	if re, _ := presp.GetRegionError(); re != nil {
		return &tikvrpc.Response{Resp: &kvrpcpb.RawScanResponse{RegionError: re}}, nil
	}
	meta, _ := c.cluster.GetRegion(enc.Context.GetRegionId())
	if meta == nil {
		panic("VERIF-INFRA: region vanished")
	}
	rs, re := mocktikv.MvccKey(meta.StartKey).Raw(), mocktikv.MvccKey(meta.EndKey).Raw()
	store := c.inner.inner.MvccStore.(mocktikv.RawKV)
	var pairs []mocktikv.Pair
	if r.Reverse {
		upper, lower := r.StartKey, r.EndKey
		if len(re) > 0 && (len(upper) == 0 || bytes.Compare(re, upper) < 0) {
			upper = re
		}
		if bytes.Compare(rs, lower) > 0 {
			lower = rs
		}
		pairs = store.RawReverseScan(r.Cf, upper, lower, int(r.Limit))
	} else {
		lower, upper := r.StartKey, r.EndKey
		if bytes.Compare(rs, lower) > 0 {
			lower = rs
		}
		if len(re) > 0 && (len(upper) == 0 || bytes.Compare(re, upper) < 0) {
			upper = re
		}
		pairs = store.RawScan(r.Cf, lower, upper, int(r.Limit))
	}
	out := &kvrpcpb.RawScanResponse{}
	for _, p := range pairs {
		kv := &kvrpcpb.KvPair{Key: p.Key}
		if !r.KeyOnly {
			kv.Value = p.Value
		}
		out.Kvs = append(out.Kvs, kv)
	}
	return &tikvrpc.Response{Resp: out}, nil
}

// guard keeps requests of the clients' background goroutines (asynchronous secondary commits) away from the mock
// store once the case has closed it: a closed leveldb dereferences nil and would take the test process down.
type guard struct {
	inner  *mocktikv.RPCClient
	mu     sync.RWMutex
	closed bool
}

func (g *guard) Close() error                              { return nil }
func (g *guard) CloseAddr(string) error                    { return nil }
func (g *guard) SetEventListener(tikv.ClientEventListener) {}
func (g *guard) SendRequestAsync(ctx context.Context, addr string, req *tikvrpc.Request, cb async.Callback[*tikvrpc.Response]) {
	go func() { cb.Schedule(g.SendRequest(ctx, addr, req, tikv.ReadTimeoutShort)) }()
}
func (g *guard) SendRequest(ctx context.Context, addr string, req *tikvrpc.Request, timeout time.Duration) (*tikvrpc.Response, error) {
	g.mu.RLock()
	defer g.mu.RUnlock()
	if g.closed {
		return nil, fmt.Errorf("the store of this case is closed")
	}
	return g.inner.SendRequest(ctx, addr, req, timeout)
}
func (g *guard) shutdown() {
	g.mu.Lock()
	g.closed = true
	g.mu.Unlock()
	sim.CloseMock(g.inner)
}

type tenant struct {
	id    uint32
	raw   *rawkv.Client
	txn   *tikv.KVStore
	rawM  map[string]string
	txnM  map[string]string
	cache *locate.RegionCache
}

func sortedKeys(m map[string]string) []string {
	var ks []string
	for k := range m {
		ks = append(ks, k)
	}
	sort.Strings(ks)
	return ks
}

// TestKeyspaceEndToEnd runs raw and transactional clients of several keyspaces against ONE physical store.
func TestKeyspaceEndToEnd(t *testing.T) {
	rec := ev.For(t, "C15", "end to end: raw and transactional clients of keyspaces 1, 2 and 0xffffff share one mocktikv cluster (3 stores) whose regions are split at generated physical keys - inside a keyspace's range, exactly at keyspace borders, between the raw and the transactional area; a rapid state machine issues raw put / get / delete / batch-put / batch-get / scan / reverse scan / delete-range and transactional set / delete / get / batch-get / scan / reverse scan through randomly chosen tenants, with splits between calls; oracle: every tenant and mode behaves as its own ordered map (exact results of every call, unbounded scans included), so nothing written by one keyspace is visible to, or damaged by, another; non-trivial = at least two tenants wrote in the same mode and an unbounded scan or delete-range ran afterwards; distinct = op sequence")
	util.EnableFailpoints()
	for _, fp := range [][2]string{{"tikvclient/fastBackoffBySkipSleep", "return"}, {"tikvclient/injectLiveness", `return("reachable")`}} {
		_ = failpoint.Enable(fp[0], fp[1])
		defer failpoint.Disable(fp[0])
	}
	userKeys := []string{"", "a", "b", "b\x00", "c", "m", "z", "\xff", "\xff\xff"}
	rapid.Check(t, func(t *rapid.T) {
		inner, cluster, pdc, err := mocktikv.NewTiKVAndPDClient("", nil)
		if err != nil {
			t.Fatalf("VERIF-INFRA: %v", err)
		}
		g := &guard{inner: inner}
		defer g.shutdown()
		mocktikv.BootstrapWithMultiStores(cluster, 3)
		ids := []uint32{1, 2, 0xffffff}
		shim := &ksPD{Client: pdc, metas: map[string]*keyspacepb.KeyspaceMeta{}}
		for _, id := range ids {
			name := fmt.Sprintf("ks%d", id)
			shim.metas[name] = &keyspacepb.KeyspaceMeta{Keyspace: &keyspacepb.KeyspaceMeta_Id{Id: id}, Name: name, State: keyspacepb.KeyspaceState_ENABLED}
		}
		ctx := context.Background()
		var tenants []*tenant
		for _, id := range ids {
			name := fmt.Sprintf("ks%d", id)
			tn := &tenant{id: id, rawM: map[string]string{}, txnM: map[string]string{}}
			rawPD, err := locate.NewCodecPDClientWithKeyspace(apicodec.ModeRaw, shim, name)
			if err != nil {
				t.Fatalf("VERIF-INFRA: %v", err)
			}
			tn.cache = locate.NewRegionCache(rawPD)
			cli := &rawkv.Client{}
			probe := rawkv.ClientProbe{Client: cli}
			probe.SetRegionCache(tn.cache)
			probe.SetPDClient(rawPD)
			probe.SetRPCClient(&codecRPC{inner: g, cluster: cluster, codec: rawPD.GetCodec()})
			cli.SetColumnFamily("CF_DEFAULT")
			tn.raw = cli
			store, err := tikv.NewTestKeyspaceTiKVStore(g, shim, nil, nil, 0, *shim.metas[name], tikv.WithUpdateInterval(time.Hour))
			if err != nil {
				t.Fatalf("VERIF-INFRA: %v", err)
			}
			tn.txn = store
			tenants = append(tenants, tn)
		}
		defer func() {
			for _, tn := range tenants {
				tn.cache.Close()
				_ = tn.txn.Close()
			}
		}()
		// create the raw column family in the mock (its batch handlers index into a nil result otherwise)
		if err := tenants[0].raw.Put(ctx, []byte("\x00init"), []byte("x")); err != nil {
			t.Fatalf("VERIF-INFRA: %v", err)
		}
		if err := tenants[0].raw.Delete(ctx, []byte("\x00init")); err != nil {
			t.Fatalf("VERIF-INFRA: %v", err)
		}
		var ops []string
		fail := func(f string, a ...any) {
			t.Fatalf("keyspace isolation / transparency broken: %s\n  ops:\n    %s", fmt.Sprintf(f, a...), strings.Join(ops, "\n    "))
		}
		tenantG := rapid.IntRange(0, len(tenants)-1)
		keyG := rapid.SampledFrom(userKeys)
		rawWriters, txnWriters := map[uint32]bool{}, map[uint32]bool{}
		wide := false
		bounds := func(t *rapid.T) (string, string) {
			lo, hi := keyG.Draw(t, "lo"), keyG.Draw(t, "hi")
			if lo > hi {
				lo, hi = hi, lo
			}
			switch rapid.IntRange(0, 3).Draw(t, "unbounded") {
			case 0:
				hi = ""
			case 1:
				lo = ""
			case 2:
				lo, hi = "", ""
			}
			return lo, hi
		}
		inRange := func(k, lo, hi string) bool { return k >= lo && (hi == "" || k < hi) }
		split := func(phys []byte) {
			meta, _, _, _ := cluster.GetRegionByKey(mocktikv.NewMvccKey(phys))
			if meta == nil || bytes.Equal(mocktikv.MvccKey(meta.StartKey).Raw(), phys) {
				return
			}
			newID := cluster.AllocID()
			peerIDs := cluster.AllocIDs(len(meta.Peers))
			ver := meta.RegionEpoch.GetVersion()
			cluster.Split(meta.Id, newID, phys, peerIDs, peerIDs[0])
			for _, r := range cluster.GetAllRegions() {
				if r.Meta.Id == meta.Id || r.Meta.Id == newID {
					r.Meta.RegionEpoch = &metapb.RegionEpoch{ConfVer: meta.RegionEpoch.GetConfVer(), Version: ver + 1}
				}
			}
		}
		t.Repeat(map[string]func(*rapid.T){
			"split": func(t *rapid.T) {
				mode := rapid.SampledFrom([]byte{'r', 'x'}).Draw(t, "mode")
				id := rapid.SampledFrom([]uint32{1, 2, 3, 0xffffff}).Draw(t, "ksid")
				phys := []byte{mode, byte(id >> 16), byte(id >> 8), byte(id)}
				if rapid.Bool().Draw(t, "inside") {
					phys = append(phys, keyG.Draw(t, "k")...)
				}
				split(phys)
				ops = append(ops, fmt.Sprintf("split(%x)", phys))
			},
			"rawPut": func(t *rapid.T) {
				tn := tenants[tenantG.Draw(t, "tenant")]
				k, v := keyG.Draw(t, "k"), fmt.Sprintf("r%d-%d", tn.id, len(ops))
				if k == "" {
					return
				}
				ops = append(ops, fmt.Sprintf("ks%d.rawPut(%q)", tn.id, k))
				if err := tn.raw.Put(ctx, []byte(k), []byte(v)); err != nil {
					fail("rawPut failed: %v", err)
				}
				tn.rawM[k] = v
				rawWriters[tn.id] = true
			},
			"rawBatchPut": func(t *rapid.T) {
				tn := tenants[tenantG.Draw(t, "tenant")]
				var ks, vs [][]byte
				for i := rapid.IntRange(1, 4).Draw(t, "n"); i > 0; i-- {
					k := keyG.Draw(t, "k")
					if k == "" {
						continue
					}
					v := fmt.Sprintf("rb%d-%d-%d", tn.id, len(ops), i)
					ks, vs = append(ks, []byte(k)), append(vs, []byte(v))
				}
				if len(ks) == 0 {
					return
				}
				ops = append(ops, fmt.Sprintf("ks%d.rawBatchPut(%q)", tn.id, ks))
				if err := tn.raw.BatchPut(ctx, ks, vs); err != nil {
					fail("rawBatchPut failed: %v", err)
				}
				for i := range ks {
					tn.rawM[string(ks[i])] = string(vs[i])
				}
				rawWriters[tn.id] = true
			},
			"rawDelete": func(t *rapid.T) {
				tn := tenants[tenantG.Draw(t, "tenant")]
				k := keyG.Draw(t, "k")
				if k == "" {
					return
				}
				ops = append(ops, fmt.Sprintf("ks%d.rawDelete(%q)", tn.id, k))
				if err := tn.raw.Delete(ctx, []byte(k)); err != nil {
					fail("rawDelete failed: %v", err)
				}
				delete(tn.rawM, k)
			},
			"rawGet": func(t *rapid.T) {
				tn := tenants[tenantG.Draw(t, "tenant")]
				k := keyG.Draw(t, "k")
				if k == "" {
					return
				}
				v, err := tn.raw.Get(ctx, []byte(k))
				ops = append(ops, fmt.Sprintf("ks%d.rawGet(%q) -> %q", tn.id, k, v))
				if err != nil {
					fail("rawGet failed: %v", err)
				}
				if want, ok := tn.rawM[k]; (v != nil) != ok || (ok && string(v) != want) {
					fail("ks%d.rawGet(%q) = %q, the keyspace's own map says (%q, present=%v)", tn.id, k, v, want, ok)
				}
			},
			"rawScan": func(t *rapid.T) {
				tn := tenants[tenantG.Draw(t, "tenant")]
				lo, hi := bounds(t)
				reverse := rapid.Bool().Draw(t, "reverse")
				if reverse && hi == "" {
					hi = "\xff\xff\xff" // documented: ReverseScan does not support scanning from ""
				}
				limit := rapid.IntRange(1, 12).Draw(t, "limit")
				var ks, vs [][]byte
				var err error
				if reverse {
					ks, vs, err = tn.raw.ReverseScan(ctx, []byte(hi), []byte(lo), limit)
				} else {
					ks, vs, err = tn.raw.Scan(ctx, []byte(lo), []byte(hi), limit)
				}
				ops = append(ops, fmt.Sprintf("ks%d.rawScan([%q,%q) reverse=%v limit=%d) -> %q", tn.id, lo, hi, reverse, limit, ks))
				if err != nil {
					fail("rawScan failed: %v", err)
				}
				var want []string
				for _, k := range sortedKeys(tn.rawM) {
					if inRange(k, lo, hi) {
						want = append(want, k)
					}
				}
				if reverse {
					sort.Sort(sort.Reverse(sort.StringSlice(want)))
				}
				if len(want) > limit {
					want = want[:limit]
				}
				if len(ks) != len(want) {
					fail("ks%d.rawScan([%q,%q) reverse=%v limit=%d) returned keys %q, the keyspace's own map gives %q", tn.id, lo, hi, reverse, limit, ks, want)
				}
				for i := range want {
					if string(ks[i]) != want[i] || string(vs[i]) != tn.rawM[want[i]] {
						fail("ks%d.rawScan([%q,%q) reverse=%v) item %d = %q=%q, want %q=%q", tn.id, lo, hi, reverse, i, ks[i], vs[i], want[i], tn.rawM[want[i]])
					}
				}
				if (lo == "" || hi == "") && len(rawWriters) >= 2 {
					wide = true
				}
			},
			"rawDeleteRange": func(t *rapid.T) {
				tn := tenants[tenantG.Draw(t, "tenant")]
				lo, hi := bounds(t)
				ops = append(ops, fmt.Sprintf("ks%d.rawDeleteRange([%q,%q))", tn.id, lo, hi))
				if err := tn.raw.DeleteRange(ctx, []byte(lo), []byte(hi)); err != nil {
					fail("rawDeleteRange failed: %v", err)
				}
				for k := range tn.rawM {
					if inRange(k, lo, hi) {
						delete(tn.rawM, k)
					}
				}
				if (lo == "" || hi == "") && len(rawWriters) >= 2 {
					wide = true
				}
			},
			"txnWrite": func(t *rapid.T) {
				tn := tenants[tenantG.Draw(t, "tenant")]
				txn, err := tn.txn.Begin()
				if err != nil {
					fail("begin failed: %v", err)
				}
				staged := map[string]*string{}
				for i := rapid.IntRange(1, 4).Draw(t, "n"); i > 0; i-- {
					k := keyG.Draw(t, "k")
					if k == "" {
						continue
					}
					if rapid.IntRange(0, 3).Draw(t, "del") == 0 {
						_ = txn.Delete([]byte(k))
						staged[k] = nil
					} else {
						v := fmt.Sprintf("t%d-%d-%d", tn.id, len(ops), i)
						_ = txn.Set([]byte(k), []byte(v))
						staged[k] = &v
					}
				}
				ops = append(ops, fmt.Sprintf("ks%d.txnWrite(%d keys)", tn.id, len(staged)))
				if err := txn.Commit(ctx); err != nil {
					fail("commit failed: %v", err)
				}
				for k, v := range staged {
					if v == nil {
						delete(tn.txnM, k)
					} else {
						tn.txnM[k] = *v
					}
				}
				txnWriters[tn.id] = true
			},
			"txnRead": func(t *rapid.T) {
				tn := tenants[tenantG.Draw(t, "tenant")]
				txn, err := tn.txn.Begin()
				if err != nil {
					fail("begin failed: %v", err)
				}
				defer txn.Rollback()
				switch rapid.SampledFrom([]string{"get", "batchget", "iter", "iterrev"}).Draw(t, "kind") {
				case "get":
					k := keyG.Draw(t, "k")
					if k == "" {
						return
					}
					v, err := txn.Get(ctx, []byte(k))
					want, ok := tn.txnM[k]
					ops = append(ops, fmt.Sprintf("ks%d.txnGet(%q) -> %q %v", tn.id, k, v.Value, err))
					if (err == nil) != ok || (ok && string(v.Value) != want) {
						fail("ks%d.txnGet(%q) = (%q, %v), the keyspace's own map says (%q, present=%v)", tn.id, k, v.Value, err, want, ok)
					}
				case "batchget":
					var ks [][]byte
					for i := rapid.IntRange(1, 4).Draw(t, "n"); i > 0; i-- {
						if k := keyG.Draw(t, "k"); k != "" {
							ks = append(ks, []byte(k))
						}
					}
					if len(ks) == 0 {
						return
					}
					m, err := txn.BatchGet(ctx, ks)
					ops = append(ops, fmt.Sprintf("ks%d.txnBatchGet(%q)", tn.id, ks))
					if err != nil {
						fail("txnBatchGet failed: %v", err)
					}
					for _, k := range ks {
						want, ok := tn.txnM[string(k)]
						got, gok := m[string(k)]
						if ok != gok || (ok && string(got.Value) != want) {
							fail("ks%d.txnBatchGet: %q = (%q, %v), want (%q, %v)", tn.id, k, got.Value, gok, want, ok)
						}
					}
				default:
					lo, hi := bounds(t)
					reverse := rapid.Bool().Draw(t, "reverse")
					if reverse && hi == "" {
						hi = "\xff\xff\xff" // a reverse scan without upper bound is the known finding of C05
					}
					var got []string
					var vals []string
					var err error
					if !reverse {
						var upper []byte
						if hi != "" {
							upper = []byte(hi)
						}
						it, e := txn.Iter([]byte(lo), upper)
						err = e
						for err == nil && it.Valid() {
							got, vals = append(got, string(it.Key())), append(vals, string(it.Value()))
							err = it.Next()
						}
						if e == nil {
							it.Close()
						}
					} else {
						it, e := txn.IterReverse([]byte(hi), []byte(lo))
						err = e
						for err == nil && it.Valid() {
							got, vals = append(got, string(it.Key())), append(vals, string(it.Value()))
							err = it.Next()
						}
						if e == nil {
							it.Close()
						}
					}
					ops = append(ops, fmt.Sprintf("ks%d.txnScan([%q,%q) reverse=%v) -> %q", tn.id, lo, hi, reverse, got))
					if err != nil {
						fail("txn scan failed: %v", err)
					}
					var want []string
					for _, k := range sortedKeys(tn.txnM) {
						if inRange(k, lo, hi) {
							want = append(want, k)
						}
					}
					if reverse {
						sort.Sort(sort.Reverse(sort.StringSlice(want)))
					}
					if len(got) != len(want) {
						fail("ks%d.txnScan([%q,%q) reverse=%v) returned %q, the keyspace's own map gives %q", tn.id, lo, hi, reverse, got, want)
					}
					for i := range want {
						if got[i] != want[i] || vals[i] != tn.txnM[want[i]] {
							fail("ks%d.txnScan item %d = %q=%q, want %q=%q", tn.id, i, got[i], vals[i], want[i], tn.txnM[want[i]])
						}
					}
					if (lo == "" || hi == "") && len(txnWriters) >= 2 {
						wide = true
					}
				}
			},
		})
		rec.Case(strings.Join(ops, ";"), wide, []string{fmt.Sprintf("raw-writers>=2=%v", len(rawWriters) >= 2), fmt.Sprintf("txn-writers>=2=%v", len(txnWriters) >= 2), fmt.Sprintf("wide-op-after-two-writers=%v", wide)}, map[string]any{"ops": len(ops)})
	})
}
