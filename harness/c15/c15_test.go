// Package c15 decides property C15 (catalogue part): every key-bearing field of every
// command type is prefixed on the wire and stripped from every response; contexts attach,
// region-error responses generate and read back, the batched wire form preserves the command;
// keyspace key/range encodings round-trip, preserve order and clip to the keyspace.
package c15

import (
	"bytes"
	"fmt"
	"reflect"
	"regexp"
	"sort"
	"strings"
	"testing"

	"github.com/gogo/protobuf/proto"
	"github.com/pingcap/kvproto/pkg/errorpb"
	"github.com/pingcap/kvproto/pkg/keyspacepb"
	"github.com/pingcap/kvproto/pkg/kvrpcpb"
	"github.com/pingcap/kvproto/pkg/tikvpb"
	"github.com/tikv/client-go/v2/internal/apicodec"
	"github.com/tikv/client-go/v2/tikvrpc"
	ucodec "github.com/tikv/client-go/v2/util/codec"
	"github.com/tikv/client-go/v2/verif/ev"
	_ "github.com/tikv/client-go/v2/verif/quiet"
	"pgregory.net/rapid"
)

// ---------------------------------------------------------------- catalogue discovery (by reflection)

// candidate request message types = return types of the zero-arg accessor methods of *tikvrpc.Request
var accessorName = map[reflect.Type]string{}

func candidateTypes() []reflect.Type {
	rt := reflect.TypeOf(&tikvrpc.Request{})
	seen := map[reflect.Type]bool{}
	var out []reflect.Type
	for i := 0; i < rt.NumMethod(); i++ {
		m := rt.Method(i)
		if m.Type.NumIn() != 1 || m.Type.NumOut() != 1 {
			continue
		}
		o := m.Type.Out(0)
		if o.Kind() == reflect.Ptr && o.Elem().Kind() == reflect.Struct && strings.Contains(o.Elem().PkgPath(), "kvproto/pkg") && !seen[o] {
			seen[o] = true
			accessorName[o] = m.Name
			out = append(out, o)
		}
	}
	sort.Slice(out, func(i, j int) bool { return out[i].String() < out[j].String() })
	return out
}

func noPanic(f func()) (ok bool) {
	defer func() {
		if recover() != nil {
			ok = false
		}
	}()
	f()
	return true
}

type cmdInfo struct {
	cmd   tikvrpc.CmdType
	name  string
	reqT  reflect.Type // pointer type
	respT reflect.Type // pointer type, nil if GenRegionErrorResp does not know the command
}

type fataler interface{ Fatalf(string, ...any) }

func newCodec(t fataler, mode apicodec.Mode, id uint32) apicodec.Codec {
	c, err := apicodec.NewCodecV2(mode, &keyspacepb.KeyspaceMeta{Keyspace: &keyspacepb.KeyspaceMeta_Id{Id: id}, Name: fmt.Sprintf("ks%d", id)})
	if err != nil {
		t.Fatalf("VERIF-INFRA: %v", err)
	}
	return c
}

func discover(t fataler) []cmdInfo {
	cands := candidateTypes()
	codec := newCodec(t, apicodec.ModeTxn, 1)
	var out []cmdInfo
	for c := 0; c < 4096; c++ {
		cmd := tikvrpc.CmdType(c)
		if cmd.String() == "Unknown" {
			continue
		}
		var fits []reflect.Type
		for _, ct := range cands {
			mk := func() *tikvrpc.Request {
				// a populated message (callers always set the nested ranges; the codec dereferences them)
				m := reflect.New(ct.Elem())
				inRequest = true
				walk(m, "", 0, true, func(l *leaf) { l.set([]byte("d")) })
				return &tikvrpc.Request{Type: cmd, Req: m.Interface()}
			}
			// a wrong payload type makes the accessor's type assertion panic in at least one of these switches;
			// AttachContext's verdict itself is asserted later (K3), store-level commands have no context
			if !noPanic(func() { _ = tikvrpc.AttachContext(mk(), kvrpcpb.Context{RegionId: 77}) }) {
				continue
			}
			if !noPanic(func() { _ = mk().GetSize() }) || !noPanic(func() { _ = mk().ToBatchCommandsRequest() }) {
				continue
			}
			if !noPanic(func() { _, _ = codec.EncodeRequest(mk()) }) {
				continue
			}
			fits = append(fits, ct)
		}
		if len(fits) > 1 {
			// commands that need no region context accept any payload in AttachContext: pick the accessor whose
			// method name is most similar to the command name (longest common substring)
			best, bestLen := fits[0], -1
			for _, f := range fits {
				if l := lcs(strings.ToLower(cmd.String()), strings.ToLower(accessorName[f])); l > bestLen {
					best, bestLen = f, l
				}
			}
			fits = []reflect.Type{best}
		}
		info := cmdInfo{cmd: cmd, name: cmd.String()}
		if len(fits) == 1 {
			info.reqT = fits[0]
			req := &tikvrpc.Request{Type: cmd, Req: reflect.New(fits[0].Elem()).Interface()}
			if resp, err := tikvrpc.GenRegionErrorResp(req, &errorpb.Error{Message: "x"}); err == nil && resp != nil && resp.Resp != nil {
				info.respT = reflect.TypeOf(resp.Resp)
			}
		}
		out = append(out, info)
	}
	return out
}

// ---------------------------------------------------------------- generic walker over proto messages

type leaf struct {
	path   string
	field  string // Go field name
	parent string // Go type name of the message holding it
	val    []byte
	set    func([]byte)
}

var ctxType = reflect.TypeOf(&kvrpcpb.Context{})
var keyErrType = reflect.TypeOf(&kvrpcpb.KeyError{})

// inRequest: a KvPair inside a request never carries its (response-only) Error member
var inRequest bool

// walk visits every []byte / [][]byte leaf. With fill=true it allocates nested messages (2 elements per
// repeated field, depth-limited for recursive types).
func walk(v reflect.Value, path string, depth int, fill bool, visit func(*leaf)) {
	if v.Kind() == reflect.Ptr {
		if v.IsNil() {
			return
		}
		v = v.Elem()
	}
	if v.Kind() != reflect.Struct {
		return
	}
	tn := v.Type().Name()
	for i := 0; i < v.NumField(); i++ {
		f := v.Type().Field(i)
		if strings.HasPrefix(f.Name, "XXX_") || f.PkgPath != "" {
			continue
		}
		fv := v.Field(i)
		p := path + "." + f.Name
		switch {
		case f.Type == ctxType:
			continue // the request context carries no keys
		case inRequest && f.Type == keyErrType:
			continue
		case f.Type.Kind() == reflect.Slice && f.Type.Elem().Kind() == reflect.Uint8: // []byte
			fv := fv
			visit(&leaf{path: p, field: f.Name, parent: tn, val: fv.Bytes(), set: func(b []byte) { fv.SetBytes(b) }})
		case f.Type.Kind() == reflect.Slice && f.Type.Elem().Kind() == reflect.Slice && f.Type.Elem().Elem().Kind() == reflect.Uint8: // [][]byte
			if fill && fv.Len() == 0 {
				fv.Set(reflect.MakeSlice(f.Type, 2, 2))
			}
			for j := 0; j < fv.Len(); j++ {
				e := fv.Index(j)
				visit(&leaf{path: fmt.Sprintf("%s[%d]", p, j), field: f.Name, parent: tn, val: e.Bytes(), set: func(b []byte) { e.SetBytes(b) }})
			}
		case f.Type.Kind() == reflect.Ptr && f.Type.Elem().Kind() == reflect.Struct:
			if fill && fv.IsNil() && depth < 5 {
				fv.Set(reflect.New(f.Type.Elem()))
			}
			walk(fv, p, depth+1, fill, visit)
		case f.Type.Kind() == reflect.Slice && f.Type.Elem().Kind() == reflect.Ptr && f.Type.Elem().Elem().Kind() == reflect.Struct:
			if fill && fv.Len() == 0 && depth < 5 {
				s := reflect.MakeSlice(f.Type, 2, 2)
				s.Index(0).Set(reflect.New(f.Type.Elem().Elem()))
				s.Index(1).Set(reflect.New(f.Type.Elem().Elem()))
				fv.Set(s)
			}
			for j := 0; j < fv.Len(); j++ {
				walk(fv.Index(j), fmt.Sprintf("%s[%d]", p, j), depth+1, fill, visit)
			}
		}
	}
}

// keyBearing is the name rule over the proto definitions: which bytes fields hold user keys.
func keyBearing(l *leaf) bool {
	n := strings.ToLower(l.field)
	if strings.Contains(n, "key") || n == "primarylock" || n == "primary" || n == "secondaries" {
		return true
	}
	if (n == "start" || n == "end") && strings.Contains(l.parent, "KeyRange") {
		return true
	}
	return false
}

// regionEncoded: keys of region descriptions travel in the memory-comparable form.
func regionEncoded(l *leaf) bool {
	return l.parent == "Region" || (l.parent == "KeyNotInRegion" && (l.field == "StartKey" || l.field == "EndKey"))
}

// reviewed exceptions to the name rule (message.field): not user keys although the name says so.
var requestAllow = map[string]string{
	"SplitRegionRequest.SplitKey": "deprecated single split key, superseded by SplitKeys (not sent by the client)",
	"CompactRequest.StartKey":     "TiFlash compaction resume token in TiFlash's own physical key format, not a user key",
	"CompactRequest.EndKey":       "TiFlash compaction range bound in TiFlash's own physical key format, not a user key",
	"ShardInfo.Ranges":            "TiCI (external index service) shard routing ranges addressed to TiCI executors; their key space is outside the TiKV keyspace contract client-go implements",
}

var responseAllow = map[string]string{
	"SplitRegionResponse.Left":          "deprecated pair of result regions; the client reads Regions only",
	"SplitRegionResponse.Right":         "deprecated pair of result regions; the client reads Regions only",
	"BucketVersionNotMatch.Keys":        "bucket boundaries inside a region error are handed verbatim to the region cache by both API versions (codec v1 does not decode them either); bucket keys of PD answers are decoded by DecodeBucketKeys instead",
	"CompactResponse.CompactedStartKey": "TiFlash physical key, see CompactRequest",
	"CompactResponse.CompactedEndKey":   "TiFlash physical key, see CompactRequest",
}

func protoClone(m interface{}) interface{} { return proto.Clone(m.(proto.Message)) }

// sameMsg compares two messages by their wire form (proto.Equal cannot handle kvproto's custom bytes types).
func sameMsg(a, b interface{}) bool {
	x, err1 := proto.Marshal(a.(proto.Message))
	y, err2 := proto.Marshal(b.(proto.Message))
	return err1 == nil && err2 == nil && bytes.Equal(x, y)
}

// ---------------------------------------------------------------- K1-K3 over the whole catalogue

func TestCatalogue(t *testing.T) {
	rec := ev.For(t, "C15", "catalogue enumerated by reflection: every CmdType value whose String() is not 'Unknown' x its request message type (discovered by trying every accessor return type of *tikvrpc.Request under recover against AttachContext/GetSize/ToBatchCommandsRequest/EncodeRequest) x its response type (from GenRegionErrorResp) x {raw, txn} mode x keyspace ids {0,1,0xfffffe,0xffffff}; every []byte/[][]byte leaf (recursively through mutations, pairs, ranges, cop tasks, region infos, lock infos, key errors of every kind, region errors, mvcc infos) is filled with a distinct marker; oracle K1: after EncodeRequest each leaf is unchanged or prefix||marker and the set of prefixed leaves equals the key-bearing set given by a name rule over the proto definitions minus a reviewed allow-list, the original request is not mutated, the context carries the keyspace id; K2: a response whose key-bearing leaves are prefix||marker (memory-comparable for region descriptions) decodes without error to exactly the markers, other leaves untouched; K3: AttachContext sets the context, GenRegionErrorResp round-trips through GetRegionError, ToBatchCommandsRequest -> wire -> back and response wrapper -> wire -> FromBatchCommandsResponse preserve type and payload; non-trivial = the command has >=1 key-bearing leaf in request or response; distinct = (command, mode, keyspace id)")
	cat := discover(t)
	if len(cat) < 50 {
		t.Fatalf("VERIF-INFRA: catalogue discovery found only %d commands", len(cat))
	}
	respWrappers := (*tikvpb.BatchCommandsResponse_Response)(nil).XXX_OneofWrappers()
	var table []string
	problems := map[string]bool{}
	problem := func(f string, a ...any) { problems[fmt.Sprintf(f, a...)] = true }
	unresolved := 0
	for _, mode := range []apicodec.Mode{apicodec.ModeTxn, apicodec.ModeRaw} {
		for _, ksid := range []uint32{0, 1, 0xfffffe, 0xffffff} {
			codec := newCodec(t, mode, ksid)
			prefix := codec.EncodeKey(nil)
			for _, ci := range cat {
				if ci.reqT == nil {
					if mode == apicodec.ModeTxn && ksid == 0 {
						unresolved++
						table = append(table, fmt.Sprintf("%s: request type unresolved", ci.name))
					}
					continue
				}
				// ---------------- K3a: context attaches
				msg := reflect.New(ci.reqT.Elem())
				req := &tikvrpc.Request{Type: ci.cmd, Req: msg.Interface()}
				attached := tikvrpc.AttachContext(req, kvrpcpb.Context{RegionId: 4242})
				if cf := reflect.ValueOf(req.Req).Elem().FieldByName("Context"); cf.IsValid() && cf.Type() == ctxType {
					if !attached {
						t.Fatalf("%s: AttachContext refuses the command although its %s has a context", ci.name, ci.reqT)
					}
					if cf.IsNil() || cf.Interface().(*kvrpcpb.Context).RegionId != 4242 {
						t.Fatalf("%s: AttachContext did not set the context of the %s", ci.name, ci.reqT)
					}
				}
				// ---------------- K1: request encoding
				inRequest = true
				msg = reflect.New(ci.reqT.Elem())
				n := 0
				marks := map[string][]byte{}
				walk(msg, ci.reqT.Elem().Name(), 0, true, func(l *leaf) {
					n++
					m := []byte(fmt.Sprintf("k%03d", n))
					l.set(m)
					marks[l.path] = m
				})
				req = &tikvrpc.Request{Type: ci.cmd, Req: msg.Interface()}
				before := protoClone(req.Req)
				enc, err := codec.EncodeRequest(req)
				if err != nil {
					t.Fatalf("%s: EncodeRequest failed: %v", ci.name, err)
				}
				if !sameMsg(before, req.Req) {
					t.Fatalf("%s: EncodeRequest mutated the caller's request:\n before %v\n after  %v", ci.name, before, req.Req)
				}
				if enc.Context.GetKeyspaceId() != ksid || enc.Context.ApiVersion != kvrpcpb.APIVersion_V2 {
					t.Fatalf("%s: encoded request context has keyspace id %d api %v, want %d V2", ci.name, enc.Context.GetKeyspaceId(), enc.Context.ApiVersion, ksid)
				}
				keyLeaves := 0
				walk(reflect.ValueOf(enc.Req), ci.reqT.Elem().Name(), 0, false, func(l *leaf) {
					m, ok := marks[l.path]
					if !ok {
						t.Fatalf("%s: encoded request has a new leaf %s", ci.name, l.path)
					}
					want := keyBearing(l)
					id := l.parent + "." + l.field
					if _, allowed := requestAllow[id]; allowed {
						want = false
					}
					if strings.Contains(l.path, ".ShardInfos[") {
						want = false // requestAllow["ShardInfo.Ranges"]
					}
					if want {
						keyLeaves++
					}
					switch {
					case bytes.Equal(l.val, m):
						if want {
							problem("%s (mode %v, keyspace %d): key-bearing request field %s was sent WITHOUT the keyspace prefix (%q)", ci.name, mode, ksid, l.path, l.val)
						}
					case bytes.Equal(l.val, append(append([]byte{}, prefix...), m...)):
						if !want {
							problem("%s: request field %s was prefixed although the name rule says it carries no key (review: add to the rule or the allow-list)", ci.name, l.path)
						}
					default:
						problem("%s: request field %s = %q is neither the marker %q nor prefix||marker", ci.name, l.path, l.val, m)
					}
					if mode == apicodec.ModeTxn && ksid == 0 {
						table = append(table, fmt.Sprintf("%s %s key=%v", ci.name, l.path, want))
					}
				})
				// ---------------- K3b + K2: responses
				inRequest = false
				respKeyLeaves := 0
				if ci.respT != nil {
					e := &errorpb.Error{Message: "probe"}
					resp, err := tikvrpc.GenRegionErrorResp(req, e)
					if err != nil {
						t.Fatalf("%s: GenRegionErrorResp failed: %v", ci.name, err)
					}
					got, err := resp.GetRegionError()
					if err != nil || got != e {
						t.Fatalf("%s: GetRegionError does not return the generated region error (%v, %v)", ci.name, got, err)
					}
					rmsg := reflect.New(ci.respT.Elem())
					n = 0
					rmarks := map[string][]byte{}
					walk(rmsg, ci.respT.Elem().Name(), 0, true, func(l *leaf) {
						n++
						m := []byte(fmt.Sprintf("r%03d", n))
						rmarks[l.path] = m
						id := l.parent + "." + l.field
						_, allowed := responseAllow[id]
						if strings.Contains(l.path, "SplitRegionResponse.Left.") || strings.Contains(l.path, "SplitRegionResponse.Right.") || strings.Contains(l.path, "SplitRegionResponse.Errors[") || strings.HasPrefix(l.path, "GetHealthFeedbackResponse.RegionError.") {
							allowed = true
						}
						switch {
						case keyBearing(l) && !allowed && regionEncoded(l):
							l.set(ucodec.EncodeBytes(nil, append(append([]byte{}, prefix...), m...)))
						case keyBearing(l) && !allowed:
							l.set(append(append([]byte{}, prefix...), m...))
						default:
							l.set(m)
						}
					})
					enc2, _ := codec.EncodeRequest(&tikvrpc.Request{Type: ci.cmd, Req: reflect.New(ci.reqT.Elem()).Interface()})
					var dec *tikvrpc.Response
					if !noPanic(func() { dec, err = codec.DecodeResponse(enc2, &tikvrpc.Response{Resp: rmsg.Interface()}) }) {
						t.Fatalf("%s: DecodeResponse panicked on a fully populated %s", ci.name, ci.respT)
					}
					if ci.cmd == tikvrpc.CmdCopStream {
						if err == nil {
							t.Fatalf("CopStream: expected the documented 'not supported' error")
						}
					} else {
						if err != nil {
							problem("%s (mode %v, keyspace %d): DecodeResponse failed on a well-formed response: %v", ci.name, mode, ksid, err)
						}
						walk(reflect.ValueOf(dec.Resp), ci.respT.Elem().Name(), 0, false, func(l *leaf) {
							m := rmarks[l.path]
							id := l.parent + "." + l.field
							_, allowed := responseAllow[id]
							if strings.Contains(l.path, "SplitRegionResponse.Left.") || strings.Contains(l.path, "SplitRegionResponse.Right.") || strings.Contains(l.path, "SplitRegionResponse.Errors[") || strings.HasPrefix(l.path, "GetHealthFeedbackResponse.RegionError.") {
								allowed = true
							}
							if keyBearing(l) && !allowed {
								respKeyLeaves++
							}
							if !bytes.Equal(l.val, m) {
								problem("%s (mode %v, keyspace %d): response field %s = %q after decoding, want %q (key-bearing=%v): the keyspace prefix was not stripped", ci.name, mode, ksid, l.path, l.val, m, keyBearing(l))
							}
							if mode == apicodec.ModeTxn && ksid == 0 {
								table = append(table, fmt.Sprintf("%s <- %s key=%v", ci.name, l.path, keyBearing(l) && !allowed))
							}
						})
					}
					// batched wire form of the response
					for _, wr := range respWrappers {
						wt := reflect.TypeOf(wr).Elem()
						if wt.NumField() == 1 && wt.Field(0).Type == ci.respT {
							w := reflect.New(wt)
							payload := reflect.New(ci.respT.Elem())
							walk(payload, "", 0, true, func(l *leaf) { l.set([]byte("p" + l.field)) })
							w.Elem().Field(0).Set(payload)
							br := &tikvpb.BatchCommandsResponse{Responses: []*tikvpb.BatchCommandsResponse_Response{{}}, RequestIds: []uint64{9}}
							reflect.ValueOf(br.Responses[0]).Elem().FieldByName("Cmd").Set(w)
							wire, err := br.Marshal()
							if err != nil {
								t.Fatalf("%s: marshal batched response: %v", ci.name, err)
							}
							var back tikvpb.BatchCommandsResponse
							if err := back.Unmarshal(wire); err != nil {
								t.Fatalf("%s: unmarshal batched response: %v", ci.name, err)
							}
							r, err := tikvrpc.FromBatchCommandsResponse(back.Responses[0])
							if err != nil || reflect.TypeOf(r.Resp) != ci.respT || !sameMsg(r.Resp, payload.Interface()) {
								t.Fatalf("%s: FromBatchCommandsResponse does not preserve the response (%T, %v)", ci.name, r.Resp, err)
							}
						}
					}
				}
				// batched wire form of the request
				inRequest = true
				payload := reflect.New(ci.reqT.Elem())
				walk(payload, "", 0, true, func(l *leaf) { l.set([]byte("q" + l.field)) })
				breq := (&tikvrpc.Request{Type: ci.cmd, Req: payload.Interface()}).ToBatchCommandsRequest()
				if breq != nil {
					wire, err := (&tikvpb.BatchCommandsRequest{Requests: []*tikvpb.BatchCommandsRequest_Request{breq}, RequestIds: []uint64{5}}).Marshal()
					if err != nil {
						t.Fatalf("%s: marshal batched request: %v", ci.name, err)
					}
					var back tikvpb.BatchCommandsRequest
					if err := back.Unmarshal(wire); err != nil {
						t.Fatalf("%s: unmarshal batched request: %v", ci.name, err)
					}
					inner := reflect.ValueOf(back.Requests[0].Cmd).Elem().Field(0).Interface()
					if reflect.TypeOf(inner) != ci.reqT || !sameMsg(inner, payload.Interface()) {
						t.Fatalf("%s: the batched wire form carries %T %v, want %v", ci.name, inner, inner, payload.Interface())
					}
				}
				rec.Case(fmt.Sprintf("%s/%v/%d", ci.name, mode, ksid), keyLeaves+respKeyLeaves > 0,
					[]string{fmt.Sprintf("batchable=%v", breq != nil), fmt.Sprintf("has-response-type=%v", ci.respT != nil)},
					map[string]any{"command": ci.name, "request": ci.reqT.String(), "key_leaves_request": keyLeaves, "key_leaves_response": respKeyLeaves, "mode": fmt.Sprint(mode), "keyspace": ksid})
			}
		}
	}
	if len(problems) > 0 {
		var ps []string
		for p := range problems {
			ps = append(ps, p)
		}
		sort.Strings(ps)
		t.Fatalf("%d classification disagreements:\n  %s", len(ps), strings.Join(ps, "\n  "))
	}
	rec.SetExhaustive(true)
	rec.SetExtra("commands", len(cat))
	rec.SetExtra("commands_unresolved", unresolved)
	// compact audit table: key-bearing leaves only, array indexes collapsed
	seenRow := map[string]bool{}
	var compact []string
	idx := regexp.MustCompile(`\[\d+\]`)
	for _, row := range table {
		if strings.HasSuffix(row, "key=true") || strings.Contains(row, "unresolved") {
			r := idx.ReplaceAllString(row, "[]")
			if !seenRow[r] {
				seenRow[r] = true
				compact = append(compact, r)
			}
		}
	}
	rec.SetExtra("key_bearing_leaves", compact)
}

// ---------------------------------------------------------------- K4: key / range encodings

func genKey() *rapid.Generator[[]byte] {
	return rapid.SliceOfN(rapid.SampledFrom([]byte{0x00, 0x01, 'a', 'x', 'y', 0x7f, 0x80, 0xfe, 0xff}), 0, 5)
}

func TestKeyAndRange(t *testing.T) {
	rec := ev.For(t, "C15", "keyspace key/range encodings on drawn (mode, keyspace id, keys incl. empty, 00/ff, keys at keyspace boundaries): DecodeKey(EncodeKey(k))=k; order preserved; keys of keyspace A never decode under keyspace B; EncodeRange/DecodeRange and EncodeRegionRange/DecodeRegionRange round-trip incl. unbounded ends; DecodeRegionRange of an arbitrary physical range [s,e) is exactly its intersection with the keyspace (clipped) or an out-of-bound error when disjoint; non-trivial = a range bound is empty or lies outside the keyspace; distinct = inputs")
	rapid.Check(t, func(t *rapid.T) {
		mode := rapid.SampledFrom([]apicodec.Mode{apicodec.ModeRaw, apicodec.ModeTxn}).Draw(t, "mode")
		id := rapid.SampledFrom([]uint32{0, 1, 2, 255, 256, 0xfffffe, 0xffffff}).Draw(t, "id")
		c := newCodec(t, mode, id)
		k1, k2 := genKey().Draw(t, "k1"), genKey().Draw(t, "k2")
		e1, e2 := c.EncodeKey(k1), c.EncodeKey(k2)
		d1, err := c.DecodeKey(e1)
		if len(k1) > 0 || len(e1) > 0 {
			if err != nil || !bytes.Equal(d1, k1) {
				t.Fatalf("DecodeKey(EncodeKey(%x)) = %x, %v", k1, d1, err)
			}
		}
		if sgn(bytes.Compare(e1, e2)) != sgn(bytes.Compare(k1, k2)) {
			t.Fatalf("EncodeKey does not preserve order: %x vs %x -> %x vs %x", k1, k2, e1, e2)
		}
		// isolation: another keyspace (or the other mode) must not accept the key
		otherID := rapid.SampledFrom([]uint32{0, 1, 2, 255, 256, 0xfffffe, 0xffffff}).Draw(t, "otherid")
		otherMode := rapid.SampledFrom([]apicodec.Mode{apicodec.ModeRaw, apicodec.ModeTxn}).Draw(t, "othermode")
		if otherID != id || otherMode != mode {
			o := newCodec(t, otherMode, otherID)
			if dk, err := o.DecodeKey(e1); err == nil {
				t.Fatalf("keyspace (%v,%d) decoded a key of keyspace (%v,%d): %x -> %x", otherMode, otherID, mode, id, e1, dk)
			}
		}
		// ranges
		s, e := k1, k2
		if bytes.Compare(s, e) > 0 {
			s, e = e, s
		}
		unbounded := rapid.Bool().Draw(t, "unbounded")
		if unbounded {
			e = nil
		}
		es, ee := c.EncodeRange(s, e)
		ds, de, err := c.DecodeRange(es, ee)
		if err != nil || !bytes.Equal(ds, s) || !bytes.Equal(de, e) {
			t.Fatalf("DecodeRange(EncodeRange(%x,%x)) = (%x,%x,%v)", s, e, ds, de, err)
		}
		if bytes.Compare(es, ee) > 0 {
			t.Fatalf("EncodeRange(%x,%x) = (%x,%x) is inverted", s, e, es, ee)
		}
		rs, re := c.EncodeRegionRange(s, e)
		ds, de, err = c.DecodeRegionRange(rs, re)
		if err != nil || !bytes.Equal(ds, s) || !bytes.Equal(de, e) {
			t.Fatalf("DecodeRegionRange(EncodeRegionRange(%x,%x)) = (%x,%x,%v)", s, e, ds, de, err)
		}
		if rk, err := c.DecodeRegionKey(c.EncodeRegionKey(k1)); (len(k1) > 0) && (err != nil || !bytes.Equal(rk, k1)) {
			t.Fatalf("DecodeRegionKey(EncodeRegionKey(%x)) = %x, %v", k1, rk, err)
		}
		// clipping of an arbitrary physical region range against the keyspace
		prefix := c.EncodeKey(nil)
		ksEnd, _ := c.EncodeRange(nil, nil)
		_, ksEnd = c.EncodeRange(nil, nil)
		phys := func(name string) []byte {
			switch rapid.IntRange(0, 5).Draw(t, name) {
			case 0:
				return nil // -inf / +inf
			case 1:
				return append(append([]byte{}, prefix...), genKey().Draw(t, name+"k")...)
			case 2: // before the keyspace
				b := append([]byte{}, prefix...)
				for i := len(b) - 1; i >= 0; i-- {
					if b[i] > 0 {
						b[i]--
						break
					}
					b[i] = 0xff
				}
				return append(b, genKey().Draw(t, name+"k")...)
			case 3: // at or after the keyspace end
				return append(append([]byte{}, ksEnd...), genKey().Draw(t, name+"k")...)
			case 4:
				return append([]byte{}, prefix...)
			default:
				return append([]byte{}, ksEnd...)
			}
		}
		ps, pe := phys("pstart"), phys("pend")
		if len(pe) > 0 && bytes.Compare(ps, pe) >= 0 {
			ps, pe = pe, ps
			if bytes.Equal(ps, pe) {
				pe = append(pe, 0)
			}
		}
		encB := func(b []byte) []byte {
			if len(b) == 0 {
				return nil
			}
			return ucodec.EncodeBytes(nil, b)
		}
		cs, ce, err := c.DecodeRegionRange(encB(ps), encB(pe))
		// reference: intersection of [ps,pe) with [prefix, ksEnd)
		disjoint := bytes.Compare(ps, ksEnd) >= 0 || (len(pe) > 0 && bytes.Compare(pe, prefix) <= 0)
		outside := len(ps) == 0 || len(pe) == 0 || bytes.Compare(ps, prefix) < 0 || bytes.Compare(pe, ksEnd) > 0
		if disjoint {
			if err == nil {
				t.Fatalf("DecodeRegionRange([%x,%x)) which lies outside keyspace [%x,%x) returned (%x,%x)", ps, pe, prefix, ksEnd, cs, ce)
			}
		} else {
			if err != nil {
				t.Fatalf("DecodeRegionRange([%x,%x)) overlapping keyspace [%x,%x) failed: %v", ps, pe, prefix, ksEnd, err)
			}
			wantS, wantE := []byte{}, []byte{}
			if bytes.Compare(ps, prefix) > 0 {
				wantS = ps[len(prefix):]
			}
			if len(pe) > 0 && bytes.Compare(pe, ksEnd) < 0 {
				wantE = pe[len(prefix):]
			}
			if !bytes.Equal(cs, wantS) || !bytes.Equal(ce, wantE) {
				t.Fatalf("DecodeRegionRange([%x,%x)) = (%x,%x), want the clipped range (%x,%x) of keyspace [%x,%x)", ps, pe, cs, ce, wantS, wantE, prefix, ksEnd)
			}
		}
		rec.Case(fmt.Sprintf("%v/%d/%x/%x/%v/%x/%x", mode, id, k1, k2, unbounded, ps, pe), unbounded || outside, nil,
			map[string]any{"mode": fmt.Sprint(mode), "keyspace": id, "k1": fmt.Sprintf("%x", k1), "k2": fmt.Sprintf("%x", k2), "physical_range": fmt.Sprintf("[%x,%x)", ps, pe)})
	})
}

func sgn(x int) int {
	switch {
	case x < 0:
		return -1
	case x > 0:
		return 1
	}
	return 0
}

func lcs(a, b string) int {
	best := 0
	for i := range a {
		for j := range b {
			k := 0
			for i+k < len(a) && j+k < len(b) && a[i+k] == b[j+k] {
				k++
			}
			if k > best {
				best = k
			}
		}
	}
	return best
}
