package c15

import (
	"bytes"
	"fmt"
	"testing"

	"github.com/pingcap/kvproto/pkg/kvrpcpb"
	"github.com/tikv/client-go/v2/internal/apicodec"
	"github.com/tikv/client-go/v2/tikvrpc"
	"github.com/tikv/client-go/v2/verif/ev"
	"pgregory.net/rapid"
)

// TestRangeRequests checks the meaning of every range-carrying request, not its bytes: a key of the caller's
// keyspace must lie inside the translated wire range exactly when it lies inside the logical range the caller
// asked for, and no key of another keyspace may ever lie inside it - for forward and reverse direction and for
// empty (unbounded) bounds.
func TestRangeRequests(t *testing.T) {
	rec := ev.For(t, "C15", "range-carrying requests (Scan, RawScan forward and reverse, ScanLock, DeleteRange, RawDeleteRange, RawChecksum, UnsafeDestroyRange) with drawn bounds incl. empty ones are translated by the keyspace codec; semantic oracle: for probe keys of the own keyspace (drawn keys, the bounds, their neighbours) membership in the wire range equals membership in the logical range, and probe keys of neighbouring keyspaces and of the other mode are never inside the wire range; non-trivial = a bound is empty or the direction is reverse; distinct = inputs")
	ids := []uint32{0, 1, 2, 255, 256, 0xfffffe, 0xffffff}
	rapid.Check(t, func(t *rapid.T) {
		id := rapid.SampledFrom(ids).Draw(t, "id")
		kind := rapid.SampledFrom([]string{"Scan", "ScanReverse", "RawScan", "RawScanReverse", "ScanLock", "DeleteRange", "RawDeleteRange", "RawChecksum", "UnsafeDestroyRange"}).Draw(t, "kind")
		var mode apicodec.Mode = apicodec.ModeTxn
		if kind[:3] == "Raw" {
			mode = apicodec.ModeRaw
		}
		c := newCodec(t, mode, id)
		a, b := genKey().Draw(t, "a"), genKey().Draw(t, "b")
		if bytes.Compare(a, b) > 0 {
			a, b = b, a
		}
		lo, hi := a, b // logical range [lo, hi); empty = unbounded
		switch rapid.IntRange(0, 3).Draw(t, "empty") {
		case 0:
			lo = nil
		case 1:
			hi = nil
		case 2:
			lo, hi = nil, nil
		}
		reverse := kind == "ScanReverse" || kind == "RawScanReverse"
		var req *tikvrpc.Request
		switch kind {
		case "Scan", "ScanReverse":
			r := &kvrpcpb.ScanRequest{StartKey: lo, EndKey: hi, Reverse: reverse, Limit: 10, Version: 5}
			if reverse {
				r.StartKey, r.EndKey = hi, lo
			}
			req = tikvrpc.NewRequest(tikvrpc.CmdScan, r)
		case "RawScan", "RawScanReverse":
			r := &kvrpcpb.RawScanRequest{StartKey: lo, EndKey: hi, Reverse: reverse, Limit: 10}
			if reverse {
				r.StartKey, r.EndKey = hi, lo
			}
			req = tikvrpc.NewRequest(tikvrpc.CmdRawScan, r)
		case "ScanLock":
			req = tikvrpc.NewRequest(tikvrpc.CmdScanLock, &kvrpcpb.ScanLockRequest{StartKey: lo, EndKey: hi, MaxVersion: 5})
		case "DeleteRange":
			req = tikvrpc.NewRequest(tikvrpc.CmdDeleteRange, &kvrpcpb.DeleteRangeRequest{StartKey: lo, EndKey: hi})
		case "RawDeleteRange":
			req = tikvrpc.NewRequest(tikvrpc.CmdRawDeleteRange, &kvrpcpb.RawDeleteRangeRequest{StartKey: lo, EndKey: hi})
		case "RawChecksum":
			req = tikvrpc.NewRequest(tikvrpc.CmdRawChecksum, &kvrpcpb.RawChecksumRequest{Ranges: []*kvrpcpb.KeyRange{{StartKey: lo, EndKey: hi}}})
		case "UnsafeDestroyRange":
			req = tikvrpc.NewRequest(tikvrpc.CmdUnsafeDestroyRange, &kvrpcpb.UnsafeDestroyRangeRequest{StartKey: lo, EndKey: hi})
		}
		enc, err := c.EncodeRequest(req)
		if err != nil {
			t.Fatalf("EncodeRequest(%s) failed: %v", kind, err)
		}
		var ws, we []byte // wire range as [ws, we) in ascending terms
		switch r := enc.Req.(type) {
		case *kvrpcpb.ScanRequest:
			ws, we = r.StartKey, r.EndKey
			if reverse {
				ws, we = r.EndKey, r.StartKey
			}
		case *kvrpcpb.RawScanRequest:
			ws, we = r.StartKey, r.EndKey
			if reverse {
				ws, we = r.EndKey, r.StartKey
			}
		case *kvrpcpb.ScanLockRequest:
			ws, we = r.StartKey, r.EndKey
		case *kvrpcpb.DeleteRangeRequest:
			ws, we = r.StartKey, r.EndKey
		case *kvrpcpb.RawDeleteRangeRequest:
			ws, we = r.StartKey, r.EndKey
		case *kvrpcpb.RawChecksumRequest:
			ws, we = r.Ranges[0].StartKey, r.Ranges[0].EndKey
		case *kvrpcpb.UnsafeDestroyRangeRequest:
			ws, we = r.StartKey, r.EndKey
		}
		inWire := func(k []byte) bool {
			return bytes.Compare(k, ws) >= 0 && (len(we) == 0 || bytes.Compare(k, we) < 0)
		}
		inLogical := func(k []byte) bool {
			return bytes.Compare(k, lo) >= 0 && (len(hi) == 0 || bytes.Compare(k, hi) < 0)
		}
		probes := [][]byte{{}, a, b, append(append([]byte{}, a...), 0), append(append([]byte{}, b...), 0), {0xff, 0xff, 0xff, 0xff, 0xff, 0xff}}
		for i := 0; i < 4; i++ {
			probes = append(probes, genKey().Draw(t, fmt.Sprintf("probe%d", i)))
		}
		for _, k := range probes {
			if got, want := inWire(c.EncodeKey(k)), inLogical(k); got != want {
				t.Fatalf("%s over logical range [%x,%x) (reverse=%v) goes out as wire range [%x,%x): own key %x is inside the wire range = %v, inside the logical range = %v", kind, lo, hi, reverse, ws, we, k, got, want)
			}
		}
		// foreign keys: neighbouring keyspaces and the other mode
		var otherMode apicodec.Mode = apicodec.ModeRaw
		if mode == apicodec.ModeRaw {
			otherMode = apicodec.ModeTxn
		}
		foreign := []apicodec.Codec{newCodec(t, otherMode, id)}
		if id > 0 {
			foreign = append(foreign, newCodec(t, mode, id-1))
		}
		if id < 0xffffff {
			foreign = append(foreign, newCodec(t, mode, id+1))
		}
		for _, f := range foreign {
			for _, k := range probes {
				if inWire(f.EncodeKey(k)) {
					t.Fatalf("%s over logical range [%x,%x) (reverse=%v) goes out as wire range [%x,%x), which contains key %x of ANOTHER keyspace (physical %x)", kind, lo, hi, reverse, ws, we, k, f.EncodeKey(k))
				}
			}
		}
		rec.Case(fmt.Sprintf("%s/%d/%x/%x", kind, id, lo, hi), reverse || len(lo) == 0 || len(hi) == 0, []string{"kind=" + kind, fmt.Sprintf("reverse=%v", reverse), fmt.Sprintf("unbounded-lo=%v", len(lo) == 0), fmt.Sprintf("unbounded-hi=%v", len(hi) == 0)}, map[string]any{"kind": kind, "lo": fmt.Sprintf("%x", lo), "hi": fmt.Sprintf("%x", hi), "wire": fmt.Sprintf("[%x,%x)", ws, we)})
	})
}
