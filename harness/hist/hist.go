// Package hist builds MVCC histories with leftover locks: writer transactions on their
// own simulated clients that commit, roll back, die with the transaction open, or crash
// before / after a drawn request of Commit (shared by C05 and C14).
package hist

import (
	"fmt"
	"strings"

	"github.com/tikv/client-go/v2/verif/sim"
	"pgregory.net/rapid"
)

// Writer is one writer transaction and the way it ends.
type Writer struct {
	Steps []*sim.Step
	End   string // commit | rollback | kill (client dies with the txn open) | crash (commit with a crash fault)
}

func (w Writer) String() string {
	var ss []string
	for _, s := range w.Steps {
		ss = append(ss, s.String())
	}
	return strings.Join(ss, " ; ") + " => " + w.End
}

// Gen draws n writers over keys; writer i runs as transaction i on client firstClient+i.
func Gen(t *rapid.T, backend sim.Backend, keys []string, n, firstClient int) []Writer {
	key := func(name string) string { return rapid.SampledFrom(keys).Draw(t, name) }
	var ws []Writer
	for i := 0; i < n; i++ {
		pess := rapid.Bool().Draw(t, "pessimistic")
		b := &sim.Step{Txn: i, Op: "begin", Client: firstClient + i, Pessimistic: pess}
		if backend == sim.Uni {
			switch rapid.IntRange(0, 3).Draw(t, "mode") {
			case 1:
				b.Async = true
			case 2:
				b.OnePC = true
			}
		}
		w := Writer{Steps: []*sim.Step{b}}
		for j := rapid.IntRange(1, 3).Draw(t, "nops"); j > 0; j-- {
			op := rapid.SampledFrom([]string{"set", "set", "set", "delete"}).Draw(t, "op")
			w.Steps = append(w.Steps, &sim.Step{Txn: i, Op: op, Keys: []string{key("k")}, Val: fmt.Sprintf("w%d.%d", i, j), LockFirst: pess})
		}
		w.End = rapid.SampledFrom([]string{"commit", "commit", "commit", "crash", "crash", "kill", "rollback"}).Draw(t, "end")
		switch w.End {
		case "commit", "rollback":
			w.Steps = append(w.Steps, &sim.Step{Txn: i, Op: w.End})
		case "crash":
			w.Steps = append(w.Steps, &sim.Step{Txn: i, Op: "commit", DrainArmed: true, Faults: []sim.FaultSpec{{
				Type: "", Index: rapid.IntRange(0, 5).Draw(t, "crashidx"), Action: rapid.SampledFrom([]string{"kill", "killAfter"}).Draw(t, "crashmode")}}})
		}
		ws = append(ws, w)
	}
	return ws
}

// Build executes the writers one after the other and returns the timestamp marks: marks[0] is taken before
// the first writer, marks[i+1] after writer i (every mark is a timestamp granted to client tsoClient).
func Build(w *sim.World, ws []Writer, tsoClient int) ([]uint64, error) {
	cl := w.Cl
	first, err := cl.Clients[tsoClient].Store.CurrentTimestamp("global")
	if err != nil {
		return nil, err
	}
	marks := []uint64{first}
	for _, wr := range ws {
		for _, s := range wr.Steps {
			w.Exec(s)
		}
		if wr.End == "kill" || wr.End == "crash" {
			cl.Clients[wr.Steps[0].Client].Net.Kill()
			if t := w.Txns[wr.Steps[0].Txn]; t != nil && t.Ended == "" {
				t.Ended = "killed"
			}
		}
		ts, err := cl.Clients[tsoClient].Store.CurrentTimestamp("global")
		if err != nil {
			return nil, err
		}
		marks = append(marks, ts)
	}
	return marks, nil
}
