module github.com/tikv/client-go/v2/verif

go 1.25.12

require (
	github.com/gogo/protobuf v1.3.2
	github.com/golang/protobuf v1.5.4
	github.com/google/uuid v1.6.1-0.20241114170450-2d3c2a9cc518
	github.com/ninedraft/israce v0.0.3
	github.com/pingcap/errors v0.11.5-0.20260508054701-306e305bcf41
	github.com/pingcap/failpoint v0.0.0-20240528011301-b51a646c7c86
	github.com/pingcap/kvproto v0.0.0-20260724054804-059694ae4472
	github.com/pingcap/log v1.1.1-0.20250917021125-19901e015dc9
	github.com/pingcap/tidb v1.1.0-beta.0.20260724063146-0a6cfba9f749
	github.com/pkg/errors v0.9.1
	github.com/prometheus/client_golang v1.23.0
	github.com/prometheus/client_model v0.6.2
	github.com/stretchr/testify v1.11.1
	github.com/tidwall/gjson v1.14.4
	github.com/tikv/client-go/v2 v2.0.8-0.20260722143820-21361f264883
	github.com/tikv/pd/client v0.0.0-20260805103528-afa43111d149
	go.uber.org/goleak v1.3.0
	go.uber.org/zap v1.27.1
	google.golang.org/grpc v1.82.1
	google.golang.org/protobuf v1.36.11
	pgregory.net/rapid v1.3.0
)

require (
	cloud.google.com/go v0.112.2 // indirect
	cloud.google.com/go/compute/metadata v0.9.0 // indirect
	cloud.google.com/go/iam v1.1.7 // indirect
	cloud.google.com/go/storage v1.39.1 // indirect
	github.com/Azure/azure-sdk-for-go/sdk/azcore v1.20.0 // indirect
	github.com/Azure/azure-sdk-for-go/sdk/azidentity v1.13.1 // indirect
	github.com/Azure/azure-sdk-for-go/sdk/internal v1.11.2 // indirect
	github.com/Azure/azure-sdk-for-go/sdk/storage/azblob v1.6.3 // indirect
	github.com/Azure/go-ntlmssp v0.0.0-20221128193559-754e69321358 // indirect
	github.com/AzureAD/microsoft-authentication-library-for-go v1.6.0 // indirect
	github.com/BurntSushi/toml v1.6.0 // indirect
	github.com/HdrHistogram/hdrhistogram-go v1.1.2 // indirect
	github.com/VividCortex/ewma v1.2.0 // indirect
	github.com/alibabacloud-go/debug v1.0.1 // indirect
	github.com/alibabacloud-go/tea v1.3.11 // indirect
	github.com/aliyun/alibaba-cloud-sdk-go v1.61.1581 // indirect
	github.com/aliyun/alibabacloud-oss-go-sdk-v2 v1.2.3 // indirect
	github.com/aliyun/credentials-go v1.4.7 // indirect
	github.com/asaskevich/govalidator v0.0.0-20230301143203-a9d515a09cc2 // indirect
	github.com/aws/aws-sdk-go v1.55.7 // indirect
	github.com/aws/aws-sdk-go-v2 v1.38.1 // indirect
	github.com/aws/aws-sdk-go-v2/aws/protocol/eventstream v1.7.0 // indirect
	github.com/aws/aws-sdk-go-v2/config v1.31.2 // indirect
	github.com/aws/aws-sdk-go-v2/credentials v1.18.6 // indirect
	github.com/aws/aws-sdk-go-v2/feature/ec2/imds v1.18.4 // indirect
	github.com/aws/aws-sdk-go-v2/feature/s3/manager v1.19.0 // indirect
	github.com/aws/aws-sdk-go-v2/internal/configsources v1.4.4 // indirect
	github.com/aws/aws-sdk-go-v2/internal/endpoints/v2 v2.7.4 // indirect
	github.com/aws/aws-sdk-go-v2/internal/ini v1.8.3 // indirect
	github.com/aws/aws-sdk-go-v2/internal/v4a v1.4.4 // indirect
	github.com/aws/aws-sdk-go-v2/service/internal/accept-encoding v1.13.0 // indirect
	github.com/aws/aws-sdk-go-v2/service/internal/checksum v1.8.4 // indirect
	github.com/aws/aws-sdk-go-v2/service/internal/presigned-url v1.13.4 // indirect
	github.com/aws/aws-sdk-go-v2/service/internal/s3shared v1.19.4 // indirect
	github.com/aws/aws-sdk-go-v2/service/s3 v1.87.1 // indirect
	github.com/aws/aws-sdk-go-v2/service/sso v1.28.2 // indirect
	github.com/aws/aws-sdk-go-v2/service/ssooidc v1.33.2 // indirect
	github.com/aws/aws-sdk-go-v2/service/sts v1.38.0 // indirect
	github.com/aws/smithy-go v1.22.5 // indirect
	github.com/beorn7/perks v1.0.1 // indirect
	github.com/cespare/xxhash/v2 v2.3.0 // indirect
	github.com/cheggaaa/pb/v3 v3.0.8 // indirect
	github.com/cloudfoundry/gosigar v1.3.6 // indirect
	github.com/coocood/bbloom v0.0.0-20190830030839-58deb6228d64 // indirect
	github.com/coocood/freecache v1.2.1 // indirect
	github.com/coocood/rtutil v0.0.0-20190304133409-c84515f646f2 // indirect
	github.com/coreos/go-semver v0.3.1 // indirect
	github.com/coreos/go-systemd/v22 v22.5.0 // indirect
	github.com/danjacques/gofslock v0.0.0-20220131014315-6e321f4509c8 // indirect
	github.com/davecgh/go-spew v1.1.2-0.20180830191138-d8f796af33cc // indirect
	github.com/dgryski/go-farm v0.0.0-20240924180020-3414d57e47da // indirect
	github.com/docker/go-units v0.5.0 // indirect
	github.com/fatih/color v1.18.0 // indirect
	github.com/felixge/httpsnoop v1.0.4 // indirect
	github.com/go-asn1-ber/asn1-ber v1.5.4 // indirect
	github.com/go-ldap/ldap/v3 v3.4.4 // indirect
	github.com/go-logr/logr v1.4.3 // indirect
	github.com/go-logr/stdr v1.2.2 // indirect
	github.com/go-ole/go-ole v1.3.0 // indirect
	github.com/go-resty/resty/v2 v2.11.0 // indirect
	github.com/golang-jwt/jwt/v5 v5.3.0 // indirect
	github.com/golang/groupcache v0.0.0-20210331224755-41bb18bfe9da // indirect
	github.com/golang/snappy v0.0.4 // indirect
	github.com/google/btree v1.1.2 // indirect
	github.com/google/s2a-go v0.1.7 // indirect
	github.com/googleapis/enterprise-certificate-proxy v0.3.2 // indirect
	github.com/googleapis/gax-go/v2 v2.12.3 // indirect
	github.com/gorilla/mux v1.8.1 // indirect
	github.com/grpc-ecosystem/go-grpc-middleware v1.4.0 // indirect
	github.com/influxdata/tdigest v0.0.1 // indirect
	github.com/jmespath/go-jmespath v0.4.0 // indirect
	github.com/json-iterator/go v1.1.12 // indirect
	github.com/klauspost/compress v1.18.0 // indirect
	github.com/klauspost/cpuid v1.3.1 // indirect
	github.com/ks3sdklib/aws-sdk-go v1.2.9 // indirect
	github.com/kylelemons/godebug v1.1.0 // indirect
	github.com/lufia/plan9stats v0.0.0-20230326075908-cb1d2100619a // indirect
	github.com/mattn/go-colorable v0.1.14 // indirect
	github.com/mattn/go-isatty v0.0.20 // indirect
	github.com/mattn/go-runewidth v0.0.16 // indirect
	github.com/modern-go/concurrent v0.0.0-20180306012644-bacd9c7ef1dd // indirect
	github.com/modern-go/reflect2 v1.0.2 // indirect
	github.com/munnerz/goautoneg v0.0.0-20191010083416-a7dc8b61c822 // indirect
	github.com/ncw/directio v1.0.5 // indirect
	github.com/ngaut/pools v0.0.0-20180318154953-b7bc8c42aac7 // indirect
	github.com/ngaut/sync2 v0.0.0-20141008032647-7a24ed77b2ef // indirect
	github.com/opentracing/basictracer-go v1.1.0 // indirect
	github.com/opentracing/opentracing-go v1.2.0 // indirect
	github.com/petermattis/goid v0.0.0-20250813065127-a731cc31b4fe // indirect
	github.com/pingcap/badger v1.5.1-0.20241015064302-38533b6cbf8d // indirect
	github.com/pingcap/goleveldb v0.0.0-20191226122134-f82aafb29989 // indirect
	github.com/pingcap/sysutil v1.0.1-0.20241113070546-23b50de46fd3 // indirect
	github.com/pingcap/tidb/pkg/parser v0.0.0-20260715060322-10292a4f8697 // indirect
	github.com/pingcap/tipb v0.0.0-20260623093813-5f9928e91afe // indirect
	github.com/pkg/browser v0.0.0-20240102092130-5ac0b6a4141c // indirect
	github.com/pmezard/go-difflib v1.0.1-0.20181226105442-5d4384ee4fb2 // indirect
	github.com/power-devops/perfstat v0.0.0-20240221224432-82ca36839d55 // indirect
	github.com/prometheus/common v0.65.0 // indirect
	github.com/prometheus/procfs v0.19.2 // indirect
	github.com/qri-io/jsonpointer v0.1.1 // indirect
	github.com/qri-io/jsonschema v0.2.1 // indirect
	github.com/remyoudompheng/bigfft v0.0.0-20230129092748-24d4a6f8daec // indirect
	github.com/rivo/uniseg v0.4.7 // indirect
	github.com/sasha-s/go-deadlock v0.3.6 // indirect
	github.com/shirou/gopsutil/v3 v3.24.5 // indirect
	github.com/shoenig/go-m1cpu v0.2.1 // indirect
	github.com/spf13/pflag v1.0.10 // indirect
	github.com/tiancaiamao/gp v0.0.0-20221230034425-4025bc8a4d4a // indirect
	github.com/tidwall/match v1.1.1 // indirect
	github.com/tidwall/pretty v1.2.1 // indirect
	github.com/tklauser/go-sysconf v0.3.16 // indirect
	github.com/tklauser/numcpus v0.11.0 // indirect
	github.com/twmb/murmur3 v1.1.6 // indirect
	github.com/uber/jaeger-client-go v2.30.0+incompatible // indirect
	github.com/uber/jaeger-lib v2.4.1+incompatible // indirect
	github.com/yusufpapurcu/wmi v1.2.4 // indirect
	go.etcd.io/etcd/api/v3 v3.5.15 // indirect
	go.etcd.io/etcd/client/pkg/v3 v3.5.15 // indirect
	go.etcd.io/etcd/client/v3 v3.5.15 // indirect
	go.opencensus.io v0.24.0 // indirect
	go.opentelemetry.io/auto/sdk v1.2.1 // indirect
	go.opentelemetry.io/contrib/instrumentation/google.golang.org/grpc/otelgrpc v0.49.0 // indirect
	go.opentelemetry.io/contrib/instrumentation/net/http/otelhttp v0.49.0 // indirect
	go.opentelemetry.io/otel v1.43.0 // indirect
	go.opentelemetry.io/otel/metric v1.43.0 // indirect
	go.opentelemetry.io/otel/trace v1.43.0 // indirect
	go.uber.org/atomic v1.11.0 // indirect
	go.uber.org/multierr v1.11.0 // indirect
	golang.org/x/crypto v0.53.0 // indirect
	golang.org/x/exp v0.0.0-20250620022241-b7579e27df2b // indirect
	golang.org/x/net v0.56.0 // indirect
	golang.org/x/oauth2 v0.36.0 // indirect
	golang.org/x/sync v0.21.0 // indirect
	golang.org/x/sys v0.46.0 // indirect
	golang.org/x/term v0.44.0 // indirect
	golang.org/x/text v0.39.0 // indirect
	golang.org/x/time v0.14.0 // indirect
	golang.org/x/tools v0.47.0 // indirect
	google.golang.org/api v0.170.0 // indirect
	google.golang.org/genproto v0.0.0-20240401170217-c3f982113cda // indirect
	google.golang.org/genproto/googleapis/api v0.0.0-20260414002931-afd174a4e478 // indirect
	google.golang.org/genproto/googleapis/rpc v0.0.0-20260414002931-afd174a4e478 // indirect
	gopkg.in/ini.v1 v1.67.0 // indirect
	gopkg.in/natefinch/lumberjack.v2 v2.2.1 // indirect
	gopkg.in/yaml.v2 v2.4.0 // indirect
	gopkg.in/yaml.v3 v3.0.1 // indirect
	modernc.org/mathutil v1.7.1 // indirect
)

replace (
	github.com/go-ldap/ldap/v3 => github.com/YangKeao/ldap/v3 v3.4.5-0.20230421065457-369a3bab1117
	github.com/tikv/client-go/v2 => /repo
)
