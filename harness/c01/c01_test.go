// Package c01 decides property C01: committed transactions form a snapshot-isolated,
// externally consistent history (reads, write-write exclusion, locking reads, inserts,
// real-time order) for optimistic and pessimistic transactions on every commit path.
package c01

import (
	"fmt"
	"strings"
	"testing"

	"github.com/tikv/client-go/v2/verif/ev"
	"github.com/tikv/client-go/v2/verif/prog"
	_ "github.com/tikv/client-go/v2/verif/quiet"
	"github.com/tikv/client-go/v2/verif/scen"
	"github.com/tikv/client-go/v2/verif/sim"
	"pgregory.net/rapid"
)

func progString(steps []*sim.Step) string {
	var s []string
	for _, x := range steps {
		s = append(s, x.String())
	}
	return strings.Join(s, " ; ")
}

func nontrivial(recs []*sim.TxnRec, truth *sim.Truth) bool {
	writers := map[string]map[int]bool{}
	for _, r := range recs {
		for _, w := range r.Writes {
			if writers[w.Key] == nil {
				writers[w.Key] = map[int]bool{}
			}
			writers[w.Key][r.ID] = true
		}
	}
	shared := false
	for _, m := range writers {
		if len(m) >= 2 {
			shared = true
		}
	}
	committed := false
	for _, r := range recs {
		if o, _ := sim.OutcomeOf(r, truth); o.Committed {
			committed = true
		}
	}
	return shared && committed
}

const rule = "programs of 2-4 transactions (optimistic|pessimistic) over 2-5 shared keys on 3 simulated clients, step-wise interleaved by rapid: get, batch-get, iter, iter-reverse, set, insert (presume-not-exists; as a locked statement in pessimistic txns), delete, lock-keys (return-values / check-existence / lock-only-if-exists), commit, rollback; 0-3 region splits on/off data keys, 1 or 3 stores with leader transfers, TxnCommitBatchSize in {1, default}, CommitterConcurrency in {1, default}; tolerated faults on commit/lock calls: NotLeader, EpochNotMatch, ServerIsBusy, StaleCommand, lost prewrite response, and gates that park the i-th Prewrite/Commit/PessimisticLock RPC while a step of another transaction, a split or a leader transfer runs; afterwards every lock expires (virtual clock), an auditor client resolves all locks and the raw MVCC records are read back; oracle: history rules R-ack, R-read (every read = newest version with commit ts <= the read's snapshot ts in the final truth, or the own buffered write), R-ww (overlapping committed writers share no key), R-lock, R-insert, R-ext (acked commit before begin => start ts >= commit ts), atomicity, no leftover lock; non-trivial = >=2 transactions wrote a common key and >=1 of them committed; distinct = program text + configuration"

func TestHistories(t *testing.T)    { histories(t, sim.Mock) }
func TestHistoriesUni(t *testing.T) { histories(t, sim.Uni) }

func histories(t *testing.T, backend sim.Backend) {
	rec := ev.For(t, "C01", rule)
	rapid.Check(t, func(t *rapid.T) {
		nStores := 1
		if backend == sim.Mock {
			nStores = rapid.SampledFrom([]int{1, 3}).Draw(t, "stores")
		}
		batch1 := rapid.Bool().Draw(t, "batchsize1")
		conc1 := rapid.Bool().Draw(t, "concurrency1")
		keys, splits, steps := prog.Gen(t, backend, 2)
		res := prog.Run(backend, nStores, batch1, conc1, keys, splits, steps, nil)
		prog := progString(steps)
		if res.Hung != "" {
			t.Fatalf("VERIF-INFRA: %s\n  program: %s", res.Hung, prog)
		}
		if res.Void != "" {
			t.Skip("void case: " + res.Void)
		}
		if res.Infra != "" {
			t.Fatalf("VERIF-INFRA: %s | %s", res.Infra, prog)
		}
		var vs []string
		for _, v := range res.Viol {
			if v.Rule == "termination" {
				t.Fatalf("VERIF-INFRA: a call did not terminate (judged by C02 / C05, not by this property): %s\n  program: %s", v.Msg, prog)
			}
			if v.Known != "" && rec.Excluding(v.Known) {
				continue // a listed known finding: excluded from the search and counted (see TestKnownFindings)
			}
			vs = append(vs, v.String())
		}
		if len(vs) > 0 {
			t.Fatalf("history violates snapshot isolation / external consistency:\n  %s\n  config: backend=%v stores=%d batch1=%v conc1=%v splits=%q\n  program: %s\n  log:\n    %s\n  truth: %s",
				strings.Join(vs, "\n  "), backend, nStores, batch1, conc1, splits, prog, strings.Join(res.W.Log, "\n    "), res.Truth.Describe(keys)+"\n  rpc trace:\n    "+strings.ReplaceAll(res.W.Cl.Trace.Describe(), "\n", "\n    "))
		}
		recs := res.W.Recs()
		entries := res.W.Cl.Trace.Since(0)
		var classes []string
		for _, r := range recs {
			cls := "optimistic"
			if r.Pessimistic {
				cls = "pessimistic"
			}
			classes = append(classes, cls, "commit="+r.CommitClass)
			if r.Ended == "commit" {
				classes = append(classes, "path="+sim.ModeOf(entries, r.StartTS))
			}
		}
		gates := strings.Count(prog, "gate")
		classes = append(classes, fmt.Sprintf("gates=%v", gates > 0), fmt.Sprintf("stores=%d", nStores), fmt.Sprintf("read-errors=%v", res.W.ReadErrs > 0))
		rec.Case(fmt.Sprintf("%v/%d/%v/%v/%q/%s", backend, nStores, batch1, conc1, splits, prog), nontrivial(recs, res.Truth), classes,
			map[string]any{"backend": backend.String(), "stores": nStores, "batch_size_1": batch1, "splits": splits, "program": prog})
	})
}

// TestKnownFindings replays the fixed scenarios of the findings listed in known_findings.json and prints the
// KNOWN-FINDING line for each one that still manifests; any other violation in these scenarios fails.
func TestKnownFindings(t *testing.T) {
	rec := ev.For(t, "C01", "fixed regression scenarios of the listed known findings; each is replayed and must show exactly the listed violation")
	// C01/insert-delete-check-window: T0 inserts and deletes e (=> non-locking existence check) and writes b; after
	// T0's prewrite (check included) has succeeded, T1 creates e and commits; T0 then commits with a later commit ts.
	t1 := []*sim.Step{{Txn: 1, Op: "begin", Client: 1}, {Txn: 1, Op: "set", Keys: []string{"e"}, Val: "other"}, {Txn: 1, Op: "commit"}}
	steps := []*sim.Step{
		{Txn: 0, Op: "begin", Client: 0},
		{Txn: 0, Op: "insert", Keys: []string{"e"}, Val: "mine"},
		{Txn: 0, Op: "delete", Keys: []string{"e"}},
		{Txn: 0, Op: "set", Keys: []string{"b"}, Val: "x"},
		{Txn: 0, Op: "commit", Faults: []sim.FaultSpec{{Type: "Prewrite", Index: 0, Action: "gateAfter", Nested: &sim.Step{Op: "seq", Sub: t1}}}},
	}
	for _, backend := range []sim.Backend{sim.Mock, sim.Uni} {
		res := prog.Run(backend, 1, false, true, []string{"b", "e"}, nil, steps, nil)
		if res.Infra != "" || res.Hung != "" {
			t.Fatalf("VERIF-INFRA: %s %s", res.Infra, res.Hung)
		}
		manifested := false
		for _, v := range res.Viol {
			if v.Known == sim.KnownInsertDeleteWindow && rec.IsKnown(v.Known) {
				manifested = true
				continue
			}
			t.Fatalf("unexpected violation in the regression scenario of %s on %v: %s\n  log:\n    %s\n  rpc trace:\n    %s", sim.KnownInsertDeleteWindow, backend, v,
				strings.Join(res.W.Log, "\n    "), strings.ReplaceAll(res.W.Cl.Trace.Describe(), "\n", "\n    "))
		}
		rec.Case(fmt.Sprintf("known/%s/%v", sim.KnownInsertDeleteWindow, backend), manifested, []string{fmt.Sprintf("known-finding-manifested=%v", manifested)},
			map[string]any{"scenario": progString(steps), "backend": backend.String(), "manifested": manifested})
	}
}

// crashHistories checks the isolation rules on histories in which a committing client dies (generator and
// crash sweep of C02): whatever the recovery decides must still be a snapshot-isolated history - in particular a
// transaction whose insert found the key present must not become visible through recovery.
func crashHistories(t *testing.T, backend sim.Backend) {
	rec := ev.For(t, "C01", "commit scenarios of the C02 generator (initial data, one victim transaction incl. inserts and insert-then-delete, optional conflicting commit, recovery transactions of another client) with the victim client killed before / after a request of Commit at up to 6 evenly spaced positions; after expiry and recovery the isolation rules R-read, R-ww, R-lock, R-insert, R-ext are evaluated on the whole history; non-trivial = the victim is committed by the recovery; distinct = scenario + crash point")
	rules := map[string]bool{"read": true, "ww": true, "lock": true, "insert": true, "ext": true}
	rapid.Check(t, func(t *rapid.T) {
		p := scen.Gen(t, backend)
		base := scen.Run(p, scen.Opts{Rules: rules})
		if base.Void != "" {
			t.Skip("void case: " + base.Void)
		}
		if base.Hung != "" || base.Infra != "" {
			t.Fatalf("VERIF-INFRA: %s %s | %s", base.Hung, base.Infra, p)
		}
		n := base.RPCs
		var points []int
		for j := 0; j < 6 && n > 0; j++ {
			points = append(points, j*(n-1)/5)
		}
		for idx, i := range points {
			if idx > 0 && points[idx-1] == i {
				continue
			}
			for _, mode := range []string{"kill", "killAfter"} {
				o := scen.Run(p, scen.Opts{Faults: []sim.FaultSpec{{Type: "", Index: i, Action: mode}}, KillIfAlive: true, Rules: rules})
				if o.Void != "" {
					t.Skip("void case: " + o.Void)
				}
				if o.Hung != "" || o.Infra != "" {
					t.Fatalf("VERIF-INFRA: %s %s | crash=%s@%d | %s", o.Hung, o.Infra, mode, i, p)
				}
				var vs []sim.Violation
				for _, v := range o.Viol {
					if v.Rule == "termination" {
						t.Fatalf("VERIF-INFRA: a call did not terminate (judged by C02 / C05): %s", v.Msg)
					}
					if v.Rule == "atomicity" || v.Rule == "durability" || (v.Known != "" && rec.Excluding(v.Known)) {
						continue // atomicity is C02's rule
					}
					vs = append(vs, v)
				}
				if o.Viol = vs; len(vs) > 0 {
					t.Fatalf("history after crash recovery violates snapshot isolation:\n  crash point: %s at commit RPC #%d of %d\n  %s", mode, i, n, o.Describe(p))
				}
				rec.Case(fmt.Sprintf("%s|%s@%d", p, mode, i), o.Fate == "committed", []string{"crash=" + mode, "fate=" + o.Fate, "backend=" + backend.String()}, nil)
			}
		}
	})
}

func TestCrashHistories(t *testing.T)    { crashHistories(t, sim.Mock) }
func TestCrashHistoriesUni(t *testing.T) { crashHistories(t, sim.Uni) }
