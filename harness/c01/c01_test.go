// Package c01 decides property C01: committed transactions form a snapshot-isolated,
// externally consistent history (reads, write-write exclusion, locking reads, inserts,
// real-time order) for optimistic and pessimistic transactions on every commit path.
package c01

import (
	"fmt"
	"runtime/debug"
	"sort"
	"strings"
	"testing"
	"time"

	"github.com/tikv/client-go/v2/config"
	"github.com/tikv/client-go/v2/kv"
	"github.com/tikv/client-go/v2/verif/ev"
	_ "github.com/tikv/client-go/v2/verif/quiet"
	"github.com/tikv/client-go/v2/verif/sim"
	"pgregory.net/rapid"
)

var keyPool = []string{"a", "b", "b5", "c", "d", "e"}

// GenProgram draws a concurrent workload: 2-4 transactions over shared keys, interleaved step by step,
// with tolerated faults and gates on the multi-RPC calls.
func GenProgram(t *rapid.T, backend sim.Backend, nClients int) (keys []string, splits []string, steps []*sim.Step) {
	nKeys := rapid.IntRange(2, 5).Draw(t, "nkeys")
	keys = append([]string{}, rapid.Permutation(keyPool).Draw(t, "keys")[:nKeys]...)
	sort.Strings(keys)
	nSplit := rapid.IntRange(0, 3).Draw(t, "nsplits")
	for i := 0; i < nSplit; i++ {
		k := rapid.SampledFrom(keyPool).Draw(t, "splitkey")
		if rapid.Bool().Draw(t, "offkey") {
			k += "0" // a border between data keys
		}
		splits = append(splits, k)
	}
	nTxn := rapid.IntRange(2, 4).Draw(t, "ntxn")
	key := func(name string) string { return rapid.SampledFrom(keys).Draw(t, name) }
	perTxn := make([][]*sim.Step, nTxn)
	for i := 0; i < nTxn; i++ {
		pess := rapid.Bool().Draw(t, "pessimistic")
		b := &sim.Step{Txn: i, Op: "begin", Client: rapid.IntRange(0, nClients-1).Draw(t, "client"), Pessimistic: pess}
		if backend == sim.Uni {
			switch rapid.IntRange(0, 3).Draw(t, "mode") {
			case 1:
				b.Async = true
			case 2:
				b.OnePC = true
			case 3:
				b.Async, b.OnePC = true, true
			}
			b.Causal = rapid.IntRange(0, 4).Draw(t, "causal") == 0
		}
		seq := []*sim.Step{b}
		// unistore answers the prewrite of a not-pessimistically-locked key that still carries the txn's own
		// pessimistic lock as a duplicate command without converting the lock (TiKV and mocktikv overwrite it), so
		// the asynchronous rollback of a failed LockKeys can then remove the only lock of a committing txn. On
		// unistore a pessimistic txn therefore never both locks and writes-without-locking one key: each key is
		// either in its unlocked set (written without lock, never locked) or always locked first.
		unlocked := map[string]bool{}
		insertedKeys := map[string]bool{}
		if pess && backend == sim.Uni {
			for _, k := range keys {
				if rapid.IntRange(0, 3).Draw(t, "unlockedkey") == 0 {
					unlocked[k] = true
				}
			}
		}
		lockable := func(name string) (string, bool) {
			var c []string
			for _, k := range keys {
				if !unlocked[k] {
					c = append(c, k)
				}
			}
			if len(c) == 0 {
				return "", false
			}
			return rapid.SampledFrom(c).Draw(t, name), true
		}
		nOps := rapid.IntRange(1, 6).Draw(t, "nops")
		for j := 0; j < nOps; j++ {
			ops := []string{"get", "get", "batchget", "iter", "iterrev", "set", "set", "set", "insert", "delete"}
			// unistore records the commit of a lock-only (Op_Lock) key only if it is the primary, so a resolver cannot
			// tell a committed lock-only secondary of an async-commit transaction from a missing one (TiKV writes a
			// Lock record): no lock-only keys there (no bare lock calls, no pessimistic insert-then-delete)
			if pess && backend != sim.Uni {
				ops = append(ops, "lock", "lock")
			}
			s := &sim.Step{Txn: i, Op: rapid.SampledFrom(ops).Draw(t, "op")}
			if backend == sim.Uni && s.Op == "iterrev" {
				// unistore's ReverseScan creates its iterator before setting the read ts and so returns versions
				// newer than the snapshot (a limitation of that third-party store): reverse scans run on mocktikv only
				s.Op = "iter"
			}
			switch s.Op {
			case "get":
				s.Keys = []string{key("k")}
			case "delete", "set", "insert":
				s.Keys = []string{key("k")}
				if s.Op != "delete" {
					s.Val = fmt.Sprintf("v%d.%d", i, j)
				}
				if pess && backend == sim.Uni {
					if unlocked[s.Keys[0]] && s.Op == "insert" {
						s.Op = "set" // a pessimistic insert is a locked statement
					}
					if s.Op == "delete" && insertedKeys[s.Keys[0]] {
						s.Op, s.Val = "set", fmt.Sprintf("v%d.%d", i, j)
					}
					if s.Op == "insert" {
						insertedKeys[s.Keys[0]] = true
					}
					s.LockFirst = !unlocked[s.Keys[0]] && s.Op != "insert"
				} else {
					s.LockFirst = pess && s.Op != "insert" && rapid.IntRange(0, 3).Draw(t, "lockfirst") != 0
				}
			case "batchget":
				n := rapid.IntRange(1, 3).Draw(t, "n")
				for x := 0; x < n; x++ {
					s.Keys = append(s.Keys, key("k"))
				}
			case "iter", "iterrev":
				lo, hi := key("lo"), key("hi")
				if lo > hi {
					lo, hi = hi, lo
				}
				switch rapid.IntRange(0, 3).Draw(t, "bounds") {
				case 0:
					hi = ""
				case 1:
					hi += "\x00"
				}
				if s.Op == "iterrev" && hi == "" {
					// a reverse scan from the very end of the key space cannot locate the last region on a
					// multi-region layout (known finding C05/reverse-scan-from-end-of-keyspace): always bounded here
					hi = "~"
				}
				if s.Op == "iterrev" && hi == lo {
					hi = lo + "\x00" // an empty reverse range whose bound is a region border is examined by C05, not here
				}
				s.Lo, s.Hi = lo, hi
			case "lock":
				n := rapid.IntRange(1, 2).Draw(t, "n")
				for x := 0; x < n; x++ {
					if k, ok := lockable("k"); ok {
						s.Keys = append(s.Keys, k)
					}
				}
				if len(s.Keys) == 0 {
					s.Op, s.Keys = "get", []string{key("k")}
					break
				}
				switch rapid.IntRange(0, 3).Draw(t, "lockmode") {
				case 1:
					s.ReturnValues = true
				case 2:
					s.CheckExistence = true
				case 3:
					s.ReturnValues, s.LockOnlyIfExists = true, true
				}
			}
			seq = append(seq, s)
		}
		end := &sim.Step{Txn: i, Op: "commit"}
		if rapid.IntRange(0, 5).Draw(t, "rollback") == 0 {
			end.Op = "rollback"
		}
		seq = append(seq, end)
		perTxn[i] = seq
	}
	// interleave
	idx := make([]int, nTxn)
	for {
		var live []int
		for i := range perTxn {
			if idx[i] < len(perTxn[i]) {
				live = append(live, i)
			}
		}
		if len(live) == 0 {
			break
		}
		i := live[rapid.IntRange(0, len(live)-1).Draw(t, "next")]
		steps = append(steps, perTxn[i][idx[i]])
		idx[i]++
		// occasional topology change between steps
		if rapid.IntRange(0, 11).Draw(t, "topo") == 0 {
			if rapid.Bool().Draw(t, "leaderOrSplit") {
				steps = append(steps, &sim.Step{Op: "leader", Keys: []string{key("lk")}, Ms: int64(rapid.IntRange(0, 2).Draw(t, "peer"))})
			} else {
				steps = append(steps, &sim.Step{Op: "split", Keys: []string{key("sk") + "1"}})
			}
		}
	}
	// tolerated faults and gates on commits / locks
	for si, s := range steps {
		if s.Op != "commit" && s.Op != "lock" {
			continue
		}
		nf := rapid.IntRange(0, 2).Draw(t, "nfaults")
		if rapid.IntRange(0, 1).Draw(t, "anyfault") == 0 {
			nf = 0
		}
		for f := 0; f < nf; f++ {
			fs := sim.FaultSpec{Index: rapid.IntRange(0, 2).Draw(t, "findex")}
			if s.Op == "commit" {
				fs.Type = rapid.SampledFrom([]string{"Prewrite", "Prewrite", "Commit"}).Draw(t, "ftype")
			} else {
				fs.Type = "PessimisticLock"
			}
			fs.Action = rapid.SampledFrom([]string{"notLeader", "epochNotMatch", "serverIsBusy", "staleCommand", "gateBefore", "gateAfter", "gateBefore", "gateAfter", "dropResponse"}).Draw(t, "faction")
			if fs.Action == "dropResponse" && fs.Type != "Prewrite" {
				fs.Action = "serverIsBusy" // only losses that cannot move the commit point are "tolerated" here (C03 covers the others)
			}
			if strings.HasPrefix(fs.Action, "gate") {
				// nested step: a step of another transaction, or a topology change, while this RPC is parked
				var cands []*sim.Step
				for _, o := range steps[si+1:] {
					if o.Txn != s.Txn && o.Op != "begin" && len(cands) < 3 {
						cands = append(cands, o)
					}
				}
				switch {
				case len(cands) > 0 && rapid.IntRange(0, 3).Draw(t, "nestedkind") != 0:
					n := *cands[rapid.IntRange(0, len(cands)-1).Draw(t, "nested")]
					n.Faults = nil
					fs.Nested = &n
				case rapid.Bool().Draw(t, "nestedsplit"):
					fs.Nested = &sim.Step{Op: "split", Keys: []string{key("gk") + "2"}}
				default:
					fs.Nested = &sim.Step{Op: "leader", Keys: []string{key("gk")}, Ms: int64(rapid.IntRange(0, 2).Draw(t, "peer"))}
				}
			}
			s.Faults = append(s.Faults, fs)
		}
	}
	return
}

type caseResult struct {
	w       *sim.World
	truth   *sim.Truth
	viol    []sim.Violation
	infra   string
	hung    string
	backend sim.Backend
	batch1  bool
	nStores int
}

// RunProgram executes a program on a fresh cluster and checks the history.
func RunProgram(backend sim.Backend, nStores int, batch1 bool, conc1 bool, keys, splits []string, steps []*sim.Step, rules map[string]bool) (res caseResult) {
	res.backend, res.batch1, res.nStores = backend, batch1, nStores
	oldBatch := kv.TxnCommitBatchSize.Load()
	if batch1 {
		kv.TxnCommitBatchSize.Store(1)
	}
	defer kv.TxnCommitBatchSize.Store(oldBatch)
	cfg := *config.GetGlobalConfig()
	orig := cfg
	if conc1 {
		cfg.CommitterConcurrency = 1
	}
	config.StoreGlobalConfig(&cfg)
	defer config.StoreGlobalConfig(&orig)

	cl, err := sim.NewCluster(backend, nStores, 3)
	if err != nil {
		res.infra = err.Error()
		return
	}
	defer cl.Close()
	for _, k := range splits {
		cl.SplitAt(k)
	}
	var failMsg string
	w := sim.NewWorld(cl, keys, func(f string, a ...any) {
		if failMsg == "" {
			failMsg = fmt.Sprintf(f, a...)
		}
	})
	res.w = w
	done := make(chan struct{})
	go func() {
		defer close(done)
		defer func() {
			if r := recover(); r != nil && failMsg == "" {
				failMsg = fmt.Sprintf("panic during step %q: %v\n%s", w.Log[len(w.Log)-1], r, debug.Stack())
			}
		}()
		for _, s := range steps {
			w.Exec(s)
			if failMsg != "" {
				return
			}
		}
		res.truth, err = w.Finish()
	}()
	select {
	case <-done:
	case <-time.After(60 * time.Second):
		es := cl.Trace.Since(0)
		if len(es) > 40 {
			es = es[len(es)-40:]
		}
		var tail []string
		for _, e := range es {
			tail = append(tail, sim.DescribeEntry(e))
		}
		res.hung = fmt.Sprintf("case did not finish within 60 s; log:\n    %s\n  last RPCs:\n    %s", strings.Join(w.Log, "\n    "), strings.Join(tail, "\n    "))
		return
	}
	if failMsg != "" {
		res.viol = append(res.viol, sim.Violation{Rule: "actor", Msg: failMsg})
		return
	}
	if err != nil {
		res.infra = "recovery: " + err.Error()
		return
	}
	res.viol = sim.CheckHistory(w.Recs(), res.truth, keys, rules, cl.Trace.Since(0)...)
	return
}

func progString(steps []*sim.Step) string {
	var s []string
	for _, x := range steps {
		s = append(s, x.String())
	}
	return strings.Join(s, " ; ")
}

func nontrivial(recs []*sim.TxnRec, truth *sim.Truth) bool {
	writers := map[string]map[int]bool{}
	for _, r := range recs {
		for _, w := range r.Writes {
			if writers[w.Key] == nil {
				writers[w.Key] = map[int]bool{}
			}
			writers[w.Key][r.ID] = true
		}
	}
	shared := false
	for _, m := range writers {
		if len(m) >= 2 {
			shared = true
		}
	}
	committed := false
	for _, r := range recs {
		if o, _ := sim.OutcomeOf(r, truth); o.Committed {
			committed = true
		}
	}
	return shared && committed
}

const rule = "programs of 2-4 transactions (optimistic|pessimistic) over 2-5 shared keys on 3 simulated clients, step-wise interleaved by rapid: get, batch-get, iter, iter-reverse, set, insert (presume-not-exists; as a locked statement in pessimistic txns), delete, lock-keys (return-values / check-existence / lock-only-if-exists), commit, rollback; 0-3 region splits on/off data keys, 1 or 3 stores with leader transfers, TxnCommitBatchSize in {1, default}, CommitterConcurrency in {1, default}; tolerated faults on commit/lock calls: NotLeader, EpochNotMatch, ServerIsBusy, StaleCommand, lost prewrite response, and gates that park the i-th Prewrite/Commit/PessimisticLock RPC while a step of another transaction, a split or a leader transfer runs; afterwards every lock expires (virtual clock), an auditor client resolves all locks and the raw MVCC records are read back; oracle: history rules R-ack, R-read (every read = newest version with commit ts <= the read's snapshot ts in the final truth, or the own buffered write), R-ww (overlapping committed writers share no key), R-lock, R-insert, R-ext (acked commit before begin => start ts >= commit ts), atomicity, no leftover lock; non-trivial = >=2 transactions wrote a common key and >=1 of them committed; distinct = program text + configuration"

func TestHistories(t *testing.T)    { histories(t, sim.Mock) }
func TestHistoriesUni(t *testing.T) { histories(t, sim.Uni) }

func histories(t *testing.T, backend sim.Backend) {
	rec := ev.For(t, "C01", rule)
	rapid.Check(t, func(t *rapid.T) {
		nStores := 1
		if backend == sim.Mock {
			nStores = rapid.SampledFrom([]int{1, 3}).Draw(t, "stores")
		}
		batch1 := rapid.Bool().Draw(t, "batchsize1")
		conc1 := rapid.Bool().Draw(t, "concurrency1")
		keys, splits, steps := GenProgram(t, backend, 2)
		res := RunProgram(backend, nStores, batch1, conc1, keys, splits, steps, nil)
		prog := progString(steps)
		if res.hung != "" {
			t.Fatalf("VERIF-INFRA: %s\n  program: %s", res.hung, prog)
		}
		if res.infra != "" {
			t.Fatalf("VERIF-INFRA: %s | %s", res.infra, prog)
		}
		var vs []string
		for _, v := range res.viol {
			if v.Known != "" && rec.Excluding(v.Known) {
				continue // a listed known finding: excluded from the search and counted (see TestKnownFindings)
			}
			vs = append(vs, v.String())
		}
		if len(vs) > 0 {
			t.Fatalf("history violates snapshot isolation / external consistency:\n  %s\n  config: backend=%v stores=%d batch1=%v conc1=%v splits=%q\n  program: %s\n  log:\n    %s\n  truth: %s",
				strings.Join(vs, "\n  "), backend, nStores, batch1, conc1, splits, prog, strings.Join(res.w.Log, "\n    "), res.truth.Describe(keys)+"\n  rpc trace:\n    "+strings.ReplaceAll(res.w.Cl.Trace.Describe(), "\n", "\n    "))
		}
		recs := res.w.Recs()
		entries := res.w.Cl.Trace.Since(0)
		var classes []string
		for _, r := range recs {
			cls := "optimistic"
			if r.Pessimistic {
				cls = "pessimistic"
			}
			classes = append(classes, cls, "commit="+r.CommitClass)
			if r.Ended == "commit" {
				classes = append(classes, "path="+sim.ModeOf(entries, r.StartTS))
			}
		}
		gates := strings.Count(prog, "gate")
		classes = append(classes, fmt.Sprintf("gates=%v", gates > 0), fmt.Sprintf("stores=%d", nStores), fmt.Sprintf("read-errors=%v", res.w.ReadErrs > 0))
		rec.Case(fmt.Sprintf("%v/%d/%v/%v/%q/%s", backend, nStores, batch1, conc1, splits, prog), nontrivial(recs, res.truth), classes,
			map[string]any{"backend": backend.String(), "stores": nStores, "batch_size_1": batch1, "splits": splits, "program": prog})
	})
}

// TestKnownFindings replays the fixed scenarios of the findings listed in known_findings.json and prints the
// KNOWN-FINDING line for each one that still manifests; any other violation in these scenarios fails.
func TestKnownFindings(t *testing.T) {
	rec := ev.For(t, "C01", "fixed regression scenarios of the listed known findings; each is replayed and must show exactly the listed violation")
	// C01/insert-delete-check-window: T0 inserts and deletes e (=> non-locking existence check) and writes b; after
	// T0's prewrite (check included) has succeeded, T1 creates e and commits; T0 then commits with a later commit ts.
	t1 := []*sim.Step{{Txn: 1, Op: "begin", Client: 1}, {Txn: 1, Op: "set", Keys: []string{"e"}, Val: "other"}, {Txn: 1, Op: "commit"}}
	steps := []*sim.Step{
		{Txn: 0, Op: "begin", Client: 0},
		{Txn: 0, Op: "insert", Keys: []string{"e"}, Val: "mine"},
		{Txn: 0, Op: "delete", Keys: []string{"e"}},
		{Txn: 0, Op: "set", Keys: []string{"b"}, Val: "x"},
		{Txn: 0, Op: "commit", Faults: []sim.FaultSpec{{Type: "Prewrite", Index: 0, Action: "gateAfter", Nested: &sim.Step{Op: "seq", Sub: t1}}}},
	}
	for _, backend := range []sim.Backend{sim.Mock, sim.Uni} {
		res := RunProgram(backend, 1, false, true, []string{"b", "e"}, nil, steps, nil)
		if res.infra != "" || res.hung != "" {
			t.Fatalf("VERIF-INFRA: %s %s", res.infra, res.hung)
		}
		manifested := false
		for _, v := range res.viol {
			if v.Known == sim.KnownInsertDeleteWindow && rec.IsKnown(v.Known) {
				manifested = true
				continue
			}
			t.Fatalf("unexpected violation in the regression scenario of %s on %v: %s\n  log:\n    %s\n  rpc trace:\n    %s", sim.KnownInsertDeleteWindow, backend, v,
				strings.Join(res.w.Log, "\n    "), strings.ReplaceAll(res.w.Cl.Trace.Describe(), "\n", "\n    "))
		}
		rec.Case(fmt.Sprintf("known/%s/%v", sim.KnownInsertDeleteWindow, backend), manifested, []string{fmt.Sprintf("known-finding-manifested=%v", manifested)},
			map[string]any{"scenario": progString(steps), "backend": backend.String(), "manifested": manifested})
	}
}
