// Package c04 decides property C04: every transaction's request stream obeys the
// Percolator ordering and timestamp rules. The oracle is the trace monitor (package mon);
// the executions come from the generators of C01 (concurrent programs), C02/C03 (commit
// scenarios under faults and resolver races) and two dedicated ones (wide transactions
// whose batches are regrouped by real splits; heart-beat scenarios).
package c04

import (
	"fmt"
	"sort"
	"strings"
	"sync/atomic"
	"testing"

	"github.com/pingcap/failpoint"
	"github.com/tikv/client-go/v2/kv"
	"github.com/tikv/client-go/v2/txnkv/transaction"
	"github.com/tikv/client-go/v2/verif/ev"
	"github.com/tikv/client-go/v2/verif/mon"
	"github.com/tikv/client-go/v2/verif/prog"
	_ "github.com/tikv/client-go/v2/verif/quiet"
	"github.com/tikv/client-go/v2/verif/scen"
	"github.com/tikv/client-go/v2/verif/sim"
	"pgregory.net/rapid"
)

const rules = "M1 no Commit before every mutation has a successful prewrite answer; M2 secondaries committed only after the primary's commit succeeded (unless async commit); M3 the owner sends no BatchRollback once the primary commit (async: every prewrite) may have taken effect; M4 a ResolveLock / pessimistic rollback by another client carries only an outcome and commit ts the store reported to that client (CheckTxnStatus, or all CheckSecondaryLocks answers for async commit); M5 CheckTxnStatus carries a current ts within the resolver's own clock (max only for ttl-0 locks), rollback-if-not-exist only after the lock's ttl elapsed on that clock, and async-commit recovery (CheckSecondaryLocks) starts only after the primary's reported ttl elapsed on that clock; M6 heart-beats name the primary, advise a non-decreasing ttl above the transaction's age, none after the end; M7 commit ts > start ts, >= every returned min-commit ts, > every timestamp issued before Commit was called unless causal; M8 one primary which is a locked mutation, async primary lists exactly the other locked keys, 1PC only with a single prewrite request; M9 prewritten mutations (op, value, pessimistic action) equal what the recorded API calls imply"

func describe(vs []mon.Violation) string {
	var s []string
	for _, v := range vs {
		s = append(s, v.String())
	}
	return strings.Join(s, "\n  ")
}

func statClasses(st mon.Stats) []string {
	var c []string
	add := func(name string, n int) {
		if n > 0 {
			c = append(c, name)
		}
	}
	add("has-prewrite", st.Prewrites)
	add("has-commit", st.Commits)
	add("has-owner-rollback", st.Rollbacks)
	add("has-resolve", st.Resolves)
	add("has-status-check", st.StatusChecks)
	add("has-heartbeat", st.HeartBeats)
	add("has-regrouped-batch", st.Regrouped)
	return c
}

func fingerprint(entries []*sim.Entry) string {
	var b strings.Builder
	for _, e := range entries {
		fmt.Fprintf(&b, "%d:%v;", e.Client, e.Type)
	}
	return b.String()
}

// ---- (a) concurrent programs of C01

func programs(t *testing.T, backend sim.Backend) {
	rec := ev.For(t, "C04", "monitor over the RPC traces of generated concurrent transaction programs (generator of C01: 2-4 transactions, all APIs, gates, tolerated faults, splits, leader moves); "+rules+"; non-trivial = the trace contains a resolver sequence (CheckTxnStatus / ResolveLock) or a regrouped prewrite batch or an owner rollback; distinct = sequence of (client, command type)")
	rapid.Check(t, func(t *rapid.T) {
		nStores := 1
		if backend == sim.Mock {
			nStores = rapid.SampledFrom([]int{1, 3}).Draw(t, "stores")
		}
		batch1 := rapid.Bool().Draw(t, "batchsize1")
		conc1 := rapid.Bool().Draw(t, "concurrency1")
		keys, splits, steps := prog.Gen(t, backend, 2)
		res := prog.Run(backend, nStores, batch1, conc1, keys, splits, steps, map[string]bool{})
		if r := res.W.Cl.Runaway(); r != "" {
			t.Fatalf("VERIF-INFRA: a call did not terminate (judged by C02 / C05): %s\n  program: %s", r, prog.String(steps))
		}
		if res.Void != "" {
			t.Skip("void case: " + res.Void) // substrate defect (13.6): the case says nothing about the client
		}
		if res.Hung != "" || res.Infra != "" {
			t.Fatalf("VERIF-INFRA: %s %s\n  program: %s", res.Hung, res.Infra, prog.String(steps))
		}
		vs, st := mon.CheckWorld(res.W, nil)
		if len(vs) > 0 {
			t.Fatalf("request stream violates the Percolator rules:\n  %s\n  config: backend=%v stores=%d batch1=%v conc1=%v splits=%q\n  program: %s\n  log:\n    %s\n  rpc trace:\n    %s",
				describe(vs), backend, nStores, batch1, conc1, splits, prog.String(steps), strings.Join(res.W.Log, "\n    "), strings.ReplaceAll(res.W.Cl.Trace.Describe(), "\n", "\n    "))
		}
		nt := st.Resolves > 0 || st.StatusChecks > 0 || st.Regrouped > 0 || st.Rollbacks > 0
		rec.Case(fingerprint(res.W.Cl.Trace.Since(0)), nt, append(statClasses(st), "backend="+backend.String()), map[string]any{"program": prog.String(steps), "prewrites": st.Prewrites, "commits": st.Commits, "resolves": st.Resolves, "status_checks": st.StatusChecks})
	})
}

func TestMonitorPrograms(t *testing.T)    { programs(t, sim.Mock) }
func TestMonitorProgramsUni(t *testing.T) { programs(t, sim.Uni) }

// ---- (b) commit scenarios under faults, crashes and resolver races (generators of C02 / C03)

var actions = []string{"dropRequest", "dropResponse", "notLeader", "epochNotMatch", "serverIsBusy", "staleCommand", "regionNotFound", "raceBefore", "raceAfter", "splitBefore", "kill", "killAfter"}

func faults(t *testing.T, backend sim.Backend) {
	rec := ev.For(t, "C04", "monitor over the RPC traces of generated commit scenarios (generator of C02/C03) executed fault-free and with one fault per request position of Commit: lost request / response, five region errors, real split before the request, client crash before / after the request, resolver race (another client on a clock that makes every lock look expired reads and resolves while the request is parked), followed by recovery transactions and an auditor; "+rules+"; non-trivial = resolver sequence, regrouped batch or owner rollback in the trace")
	maxPoints := 5
	if ev.Thorough() {
		maxPoints = 1000
	}
	rapid.Check(t, func(t *rapid.T) {
		p := scen.Gen(t, backend)
		var race []*sim.Step
		for j := rapid.IntRange(1, 2).Draw(t, "nrace"); j > 0; j-- {
			race = append(race, scen.GenReader(t, backend, p.Keys, 300+j, 1, backend == sim.Mock)...)
		}
		eval := func(o scen.Outcome, plan string) {
			if r := o.World.Cl.Runaway(); r != "" {
				t.Fatalf("VERIF-INFRA: a call did not terminate (judged by C02 / C05): %s | plan=%s | %s", r, plan, p)
			}
			if o.Void != "" {
				t.Skip("void case: " + o.Void)
			}
			if o.Hung != "" || o.Infra != "" {
				t.Fatalf("VERIF-INFRA: %s %s | plan=%s | %s", o.Hung, o.Infra, plan, p)
			}
			vs, st := mon.CheckWorld(o.World, nil)
			if len(vs) > 0 {
				o.Viol = nil
				t.Fatalf("request stream violates the Percolator rules:\n  %s\n  fault plan: %s\n  race steps: %s\n  %s", describe(vs), plan, scen.Steps(race), o.Describe(p))
			}
			nt := st.Resolves > 0 || st.StatusChecks > 0 || st.Regrouped > 0 || st.Rollbacks > 0
			rec.Case(fingerprint(o.Entries), nt, append(statClasses(st), "backend="+backend.String(), "plan="+strings.SplitN(plan, "@", 2)[0]), map[string]any{"scenario": p.String(), "plan": plan, "resolves": st.Resolves, "status_checks": st.StatusChecks, "owner_rollbacks": st.Rollbacks})
		}
		none := map[string]bool{}
		base := scen.Run(p, scen.Opts{Rules: none})
		eval(base, "none")
		n := base.RPCs
		var points []int
		for i := 0; i < n; i++ {
			points = append(points, i)
		}
		if len(points) > maxPoints {
			var sub []int
			for j := 0; j < maxPoints; j++ {
				sub = append(sub, points[j*(len(points)-1)/(maxPoints-1)])
			}
			points = sub
		}
		for _, i := range points {
			for _, a := range actions {
				if backend == sim.Uni && strings.HasPrefix(a, "race") {
					continue // see C03: unistore cannot play a resolver race against a live committer faithfully
				}
				fs := sim.FaultSpec{Type: "", Index: i, Action: a}
				switch a {
				case "raceBefore", "raceAfter":
					fs.Action = "gate" + strings.TrimPrefix(a, "race")
					fs.Nested = &sim.Step{Op: "seq", Sub: append([]*sim.Step{{Op: "expire", Client: 1}}, race...)}
				case "splitBefore":
					fs.Action = "gateBefore"
					fs.Nested = &sim.Step{Op: "split", Keys: []string{p.Keys[i%len(p.Keys)] + "3"}}
				}
				o := scen.Run(p, scen.Opts{Faults: []sim.FaultSpec{fs}, Rules: none, KillIfAlive: strings.HasPrefix(a, "kill")})
				eval(o, fmt.Sprintf("%s@#%d/%d", a, i, n))
			}
		}
	})
}

func TestMonitorFaults(t *testing.T)    { faults(t, sim.Mock) }
func TestMonitorFaultsUni(t *testing.T) { faults(t, sim.Uni) }

// ---- (c) wide transactions whose prewrite / commit batches are regrouped by real splits

func TestMonitorRegroup(t *testing.T) {
	rec := ev.For(t, "C04", "monitor over single wide transactions (5-10 keys, commit batch size 1 / 40 / 90 bytes, optimistic | pessimistic, 1 or 3 stores) whose i-th Prewrite / Commit / PessimisticLock request is parked while a region holding its keys is split for real, so the store answers EpochNotMatch and the client regroups the batch; "+rules+"; non-trivial = the same key was sent in two differently keyed prewrite requests; distinct = sequence of (client, command type)")
	pool := []string{"a", "b", "c", "d", "e", "f", "g", "h", "i", "j"}
	rapid.Check(t, func(t *rapid.T) {
		nStores := rapid.SampledFrom([]int{1, 3}).Draw(t, "stores")
		nKeys := rapid.IntRange(5, 10).Draw(t, "nkeys")
		keys := append([]string{}, rapid.Permutation(pool).Draw(t, "keys")[:nKeys]...)
		sort.Strings(keys)
		var splits []string
		for i := rapid.IntRange(0, 3).Draw(t, "nsplits"); i > 0; i-- {
			splits = append(splits, rapid.SampledFrom(pool).Draw(t, "split")+"0")
		}
		pess := rapid.Bool().Draw(t, "pessimistic")
		steps := []*sim.Step{{Txn: 0, Op: "begin", Client: 0, Pessimistic: pess}}
		for i, k := range keys {
			op := rapid.SampledFrom([]string{"set", "set", "set", "delete", "insert"}).Draw(t, "op")
			s := &sim.Step{Txn: 0, Op: op, Keys: []string{k}, Val: fmt.Sprintf("value-%d", i), LockFirst: pess && op != "insert" && rapid.IntRange(0, 3).Draw(t, "lockfirst") != 0}
			steps = append(steps, s)
		}
		commit := &sim.Step{Txn: 0, Op: "commit"}
		for f := rapid.IntRange(1, 3).Draw(t, "ngates"); f > 0; f-- {
			commit.Faults = append(commit.Faults, sim.FaultSpec{
				Type:   rapid.SampledFrom([]string{"Prewrite", "Prewrite", "Commit"}).Draw(t, "gtype"),
				Index:  rapid.IntRange(0, 3).Draw(t, "gindex"),
				Action: "gateBefore",
				Nested: &sim.Step{Op: "split", Keys: []string{rapid.SampledFrom(keys).Draw(t, "gsplit") + rapid.SampledFrom([]string{"", "1"}).Draw(t, "sfx")}},
			})
		}
		steps = append(steps, commit)
		old := kv.TxnCommitBatchSize.Load()
		size := rapid.SampledFrom([]uint64{1, 40, 90}).Draw(t, "batchbytes")
		kv.TxnCommitBatchSize.Store(size)
		res := prog.Run(sim.Mock, nStores, false, rapid.Bool().Draw(t, "conc1"), keys, splits, steps, map[string]bool{})
		kv.TxnCommitBatchSize.Store(old)
		if r := res.W.Cl.Runaway(); r != "" {
			t.Fatalf("VERIF-INFRA: a call did not terminate (judged by C02 / C05): %s\n  program: %s", r, prog.String(steps))
		}
		if res.Void != "" {
			t.Skip("void case: " + res.Void) // substrate defect (13.6): the case says nothing about the client
		}
		if res.Hung != "" || res.Infra != "" {
			t.Fatalf("VERIF-INFRA: %s %s\n  program: %s", res.Hung, res.Infra, prog.String(steps))
		}
		vs, st := mon.CheckWorld(res.W, nil)
		if len(vs) > 0 {
			t.Fatalf("request stream violates the Percolator rules:\n  %s\n  config: stores=%d batch=%d splits=%q\n  program: %s\n  log:\n    %s\n  rpc trace:\n    %s",
				describe(vs), nStores, size, splits, prog.String(steps), strings.Join(res.W.Log, "\n    "), strings.ReplaceAll(res.W.Cl.Trace.Describe(), "\n", "\n    "))
		}
		rec.Case(fingerprint(res.W.Cl.Trace.Since(0)), st.Regrouped > 0, append(statClasses(st), fmt.Sprintf("batch=%d", size)), map[string]any{"program": prog.String(steps), "splits": splits, "regrouped": st.Regrouped > 0})
	})
}

// ---- (d) heart-beats

func TestMonitorHeartBeats(t *testing.T) {
	rec := ev.For(t, "C04", "monitor over heart-beat scenarios: ManagedLockTTL lowered to 40 ms (ticker 20 ms), a pessimistic transaction locks 1-3 keys, stays open for 3-6 ticks while the clock advances, optionally commits (2PC or async commit, batch size 1 or default) with one of its first Prewrite / Commit requests parked for 3 ticks while another client may read the keys, ends by commit or rollback, and the trace is watched for 4 more ticks; rules M6 (plus all others); non-trivial = at least 3 heart-beats in the trace")
	old := atomic.LoadUint64(&transaction.ManagedLockTTL)
	atomic.StoreUint64(&transaction.ManagedLockTTL, 40)
	defer atomic.StoreUint64(&transaction.ManagedLockTTL, old)
	// prewrite locks ask for a 1 ms ttl (the store keeps the larger ttl of the pessimistic lock they replace), so
	// that only the heart-beats keep the primary alive while the secondaries' ttl runs out
	sim.EnableFailpoints()
	_ = failpoint.Enable("tikvclient/twoPCShortLockTTL", "return")
	defer failpoint.Disable("tikvclient/twoPCShortLockTTL")
	rapid.Check(t, func(t *rapid.T) {
		backend := rapid.SampledFrom([]sim.Backend{sim.Mock, sim.Uni, sim.Uni, sim.Uni}).Draw(t, "backend")
		keys := []string{"a", "b", "c"}
		steps := []*sim.Step{{Txn: 0, Op: "begin", Client: 0, Pessimistic: true, Async: rapid.IntRange(0, 7).Draw(t, "async") != 0}}
		for i := rapid.SampledFrom([]int{1, 2, 2, 3, 3}).Draw(t, "nlocks"); i > 0; i-- {
			k := rapid.SampledFrom(keys).Draw(t, "k")
			if rapid.Bool().Draw(t, "write") {
				steps = append(steps, &sim.Step{Txn: 0, Op: "set", Keys: []string{k}, Val: "v", LockFirst: true})
			} else {
				steps = append(steps, &sim.Step{Txn: 0, Op: "lock", Keys: []string{k}})
			}
			steps = append(steps, &sim.Step{Op: "sleep", Ms: int64(rapid.IntRange(20, 50).Draw(t, "gap"))})
		}
		steps = append(steps, &sim.Step{Op: "sleep", Ms: int64(rapid.IntRange(60, 120).Draw(t, "open"))})
		end := &sim.Step{Txn: 0, Op: rapid.SampledFrom([]string{"commit", "commit", "commit", "commit", "rollback"}).Draw(t, "end")}
		if end.Op == "commit" && rapid.IntRange(0, 7).Draw(t, "park") != 0 {
			// while the request is parked the owner keeps beating; optionally another client then reads the keys: the
			// secondaries' own ttl (never refreshed) has run out by then, the heart-beaten primary is alive
			nested := []*sim.Step{{Op: "sleep", Ms: int64(rapid.IntRange(65, 110).Draw(t, "parked"))}}
			if rapid.IntRange(0, 7).Draw(t, "reader") != 0 {
				nested = append(nested, &sim.Step{Txn: 9, Op: "begin", Client: 1}, &sim.Step{Txn: 9, Op: "batchget", Keys: keys}, &sim.Step{Txn: 9, Op: "rollback"})
			}
			end.Faults = []sim.FaultSpec{{Type: rapid.SampledFrom([]string{"Prewrite", "Prewrite", "Prewrite", "Commit"}).Draw(t, "ptype"), Index: rapid.SampledFrom([]int{0, 0, 0, 1}).Draw(t, "pidx"), Action: rapid.SampledFrom([]string{"gateBefore", "gateAfter", "gateAfter"}).Draw(t, "pwhen"), Nested: &sim.Step{Op: "seq", Sub: nested}}}
		}
		steps = append(steps, end, &sim.Step{Op: "sleep", Ms: 85})
		res := prog.Run(backend, 1, false, true, keys, nil, steps, map[string]bool{})
		if r := res.W.Cl.Runaway(); r != "" {
			t.Fatalf("VERIF-INFRA: a call did not terminate (judged by C02 / C05): %s\n  program: %s", r, prog.String(steps))
		}
		if res.Void != "" {
			t.Skip("void case: " + res.Void) // substrate defect (13.6): the case says nothing about the client
		}
		if res.Hung != "" || res.Infra != "" {
			t.Fatalf("VERIF-INFRA: %s %s\n  program: %s", res.Hung, res.Infra, prog.String(steps))
		}
		vs, st := mon.CheckWorld(res.W, nil)
		if len(vs) > 0 {
			t.Fatalf("request stream violates the Percolator rules:\n  %s\n  backend=%v\n  program: %s\n  log:\n    %s\n  rpc trace:\n    %s",
				describe(vs), backend, prog.String(steps), strings.Join(res.W.Log, "\n    "), strings.ReplaceAll(res.W.Cl.Trace.Describe(), "\n", "\n    "))
		}
		rec.Case(prog.String(steps)+backend.String(), st.HeartBeats >= 3, append(statClasses(st), fmt.Sprintf("heartbeats>=3=%v", st.HeartBeats >= 3), "end="+end.Op), map[string]any{"program": prog.String(steps), "heartbeats": st.HeartBeats})
	})
}
