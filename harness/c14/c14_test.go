// Package c14 decides property C14: GC lock resolution clears every lock at or below the
// safe point without changing transaction outcomes; the range task covers its range
// exactly; delete-range removes exactly [start, end); reads below the learned transaction
// safe point are refused.
package c14

import (
	"bytes"
	"context"
	"errors"
	"fmt"
	"math"
	"runtime/debug"
	"sort"
	"strings"
	"sync"
	"testing"
	"time"

	"github.com/pingcap/kvproto/pkg/kvrpcpb"
	tikverr "github.com/tikv/client-go/v2/error"
	"github.com/tikv/client-go/v2/kv"
	"github.com/tikv/client-go/v2/tikv"
	"github.com/tikv/client-go/v2/tikvrpc"
	"github.com/tikv/client-go/v2/txnkv/rangetask"
	"github.com/tikv/client-go/v2/verif/ev"
	"github.com/tikv/client-go/v2/verif/hist"
	_ "github.com/tikv/client-go/v2/verif/quiet"
	"github.com/tikv/client-go/v2/verif/sim"
	"pgregory.net/rapid"
)

var pool = []string{"a", "b", "c", "d", "e", "f", "g", "h"}

func genLayout(t *rapid.T, max int) []string {
	var splits []string
	for i := rapid.IntRange(0, max).Draw(t, "nsplits"); i > 0; i-- {
		k := rapid.SampledFrom(pool).Draw(t, "splitkey")
		if rapid.Bool().Draw(t, "offkey") {
			k += "0"
		}
		splits = append(splits, k)
	}
	return splits
}

// ---------------------------------------------------------------- (a) GC lock resolution

// decided tells from the store-side trace whether a transaction passed its commit point, and with which ts.
func decided(entries []*sim.Entry, start uint64) (bool, uint64) {
	okAnswer := func(e *sim.Entry) bool { return e.ExecSeq != 0 }
	var primary []byte
	locked := map[string]bool{}
	prewritten := map[string]uint64{}
	async := true
	any := false
	for _, e := range entries {
		r, ok := e.Req.(*kvrpcpb.PrewriteRequest)
		if !ok || r.StartVersion != start {
			continue
		}
		primary = r.PrimaryLock
		for _, m := range r.Mutations {
			if m.Op != kvrpcpb.Op_CheckNotExists {
				locked[string(m.Key)] = true
			}
		}
		resp, _ := e.Resp.(*kvrpcpb.PrewriteResponse)
		if !okAnswer(e) || resp == nil || resp.RegionError != nil || len(resp.Errors) > 0 {
			continue
		}
		any = true
		if resp.OnePcCommitTs != 0 {
			return true, resp.OnePcCommitTs
		}
		if !r.UseAsyncCommit || resp.MinCommitTs == 0 {
			async = false
		}
		for _, m := range r.Mutations {
			if resp.MinCommitTs > prewritten[string(m.Key)] || prewritten[string(m.Key)] == 0 {
				prewritten[string(m.Key)] = resp.MinCommitTs
			}
			if _, ok := prewritten[string(m.Key)]; !ok {
				prewritten[string(m.Key)] = 0
			}
		}
	}
	for _, e := range entries {
		r, ok := e.Req.(*kvrpcpb.CommitRequest)
		if !ok || r.StartVersion != start || !okAnswer(e) {
			continue
		}
		resp, _ := e.Resp.(*kvrpcpb.CommitResponse)
		if resp == nil || resp.RegionError != nil || resp.Error != nil {
			continue
		}
		for _, k := range r.Keys {
			if bytes.Equal(k, primary) {
				return true, r.CommitVersion
			}
		}
	}
	if any && async && len(locked) > 0 {
		var max uint64
		for k := range locked {
			mc, ok := prewritten[k]
			if !ok {
				return false, 0
			}
			if mc > max {
				max = mc
			}
		}
		return true, max // lower bound: a resolver may have pushed it further
	}
	return false, 0
}

func gcLocks(t *testing.T, backend sim.Backend) {
	rec := ev.For(t, "C14", "a population of leftover locks is built by 3-7 writer transactions on their own clients (commit, rollback, client death with open pessimistic locks, crash before / after a drawn request of Commit; on unistore also async commit / 1PC) over 4-8 keys in 1-5 regions; a safe point is drawn among the timestamp marks between writers (so some locks lie above it); then either KVStore.GC(safe point, concurrency 1-4) or ResolveLocksForRange with a scan limit of 1-3 locks per request runs, optionally with a region split fired at the i-th ScanLock / ResolveLock request; no lock is allowed to expire first; oracle: a scan of the whole key space finds no lock with start ts <= safe point; every transaction that had passed its commit point (judged from the store-side trace: primary committed, 1PC, or all async-commit prewrites done) is committed on every key with that commit ts (async: at least the maximal min-commit ts), every other one with start ts <= safe point is rolled back on every key; acknowledged commits stay committed; after full recovery the same holds and snapshot reads at the safe point and above equal the final records; non-trivial = at least one lock at or below the safe point existed before GC; distinct = case text")
	rapid.Check(t, func(t *rapid.T) {
		nStores := 1
		if backend == sim.Mock {
			nStores = rapid.SampledFrom([]int{1, 3}).Draw(t, "stores")
		}
		nKeys := rapid.IntRange(4, 8).Draw(t, "nkeys")
		keys := append([]string{}, rapid.Permutation(pool).Draw(t, "keys")[:nKeys]...)
		sort.Strings(keys)
		splits := genLayout(t, 4)
		nW := rapid.IntRange(3, 7).Draw(t, "nwriters")
		writers := hist.Gen(t, backend, keys, nW, 2)
		spChoice := rapid.IntRange(1, nW).Draw(t, "safepoint")
		useGC := rapid.Bool().Draw(t, "viaGC")
		conc := rapid.IntRange(1, 4).Draw(t, "concurrency")
		limit := uint32(rapid.IntRange(1, 3).Draw(t, "scanlimit"))
		gateType := rapid.SampledFrom([]string{"", "ScanLock", "ResolveLock"}).Draw(t, "gate")
		gateIdx := rapid.IntRange(0, 2).Draw(t, "gateidx")
		gateKey := rapid.SampledFrom(keys).Draw(t, "gatekey") + rapid.SampledFrom([]string{"", "1"}).Draw(t, "gatesfx")
		slowSecondaries := backend == sim.Uni && rapid.Bool().Draw(t, "slowsecondaries")
		var ws []string
		for _, w := range writers {
			ws = append(ws, w.String())
		}
		desc := fmt.Sprintf("backend=%v stores=%d splits=%q safepoint=mark[%d] viaGC=%v concurrency=%d scanlimit=%d gate=%s#%d split(%s) slow-present-secondaries=%v\n  writers:\n    %s",
			backend, nStores, splits, spChoice, useGC, conc, limit, gateType, gateIdx, gateKey, slowSecondaries, strings.Join(ws, "\n    "))

		cl, err := sim.NewCluster(backend, nStores, 2+nW)
		if err != nil {
			t.Fatalf("VERIF-INFRA: %v", err)
		}
		defer cl.Close()
		cl.SlowPresentSecondaries = slowSecondaries
		for _, k := range splits {
			cl.SplitAt(k)
		}
		var failMsg string
		w := sim.NewWorld(cl, keys, func(f string, a ...any) {
			if failMsg == "" {
				failMsg = fmt.Sprintf(f, a...)
			}
		})
		w.Auditor = cl.Clients[1]
		defer w.Release()
		var viol []string
		var classes []string
		nontrivial := false
		infra := ""
		done := make(chan struct{})
		go func() {
			defer close(done)
			defer func() {
				if r := recover(); r != nil && failMsg == "" {
					failMsg = fmt.Sprintf("panic: %v\n%s", r, debug.Stack())
				}
			}()
			marks, err := hist.Build(w, writers, 0)
			if err != nil {
				infra = err.Error()
				return
			}
			cl.Drain(2*time.Millisecond, 2*time.Second)
			sp := marks[spChoice]
			gcClient := cl.Clients[0]
			probe := tikv.StoreProbe{KVStore: cl.Clients[1].Store}
			before, err := probe.ScanLocks(context.Background(), nil, []byte{0xff, 0xff}, math.MaxUint64)
			if err != nil {
				infra = err.Error()
				return
			}
			for _, l := range before {
				if l.TxnID <= sp {
					nontrivial = true
				}
				classes = append(classes, "lock="+l.LockType.String(), fmt.Sprintf("lock<=safepoint=%v", l.TxnID <= sp))
			}
			var plan []*sim.Fault
			if gateType != "" {
				typ := map[string]tikvrpc.CmdType{"ScanLock": tikvrpc.CmdScanLock, "ResolveLock": tikvrpc.CmdResolveLock}[gateType]
				plan = []*sim.Fault{{Type: typ, Index: gateIdx, Action: "gateBefore", Gate: func() { cl.SplitAt(gateKey) }}}
			}
			gcCall := cl.NextCall()
			gcClient.Net.Arm(gcCall, 0, plan)
			ctx := context.Background()
			if useGC {
				_, err = gcClient.Store.GC(ctx, sp, tikv.WithConcurrency(conc))
			} else {
				resolver := tikv.NewRegionLockResolver("verif-gc", gcClient.Store)
				handler := func(ctx context.Context, r kv.KeyRange) (rangetask.TaskStat, error) {
					return tikv.ResolveLocksForRange(ctx, resolver, sp, r.StartKey, r.EndKey, tikv.NewGcResolveLockMaxBackoffer, limit)
				}
				runner := rangetask.NewRangeTaskRunner("verif-resolve-locks", gcClient.Store, conc, handler)
				runner.SetRegionsPerTask(rapid.IntRange(1, 3).Draw(t, "regionspertask"))
				err = runner.RunOnRange(ctx, nil, nil)
			}
			gcClient.Net.Disarm()
			if err != nil {
				viol = append(viol, fmt.Sprintf("GC failed although no request was lost: %v", err))
				return
			}
			w.Log = append(w.Log, fmt.Sprintf("GC to safe point %d done", sp))
			after, err := probe.ScanLocks(ctx, nil, []byte{0xff, 0xff}, math.MaxUint64)
			if err != nil {
				infra = err.Error()
				return
			}
			for _, l := range after {
				if l.TxnID <= sp {
					viol = append(viol, fmt.Sprintf("after GC to safe point %d key %s still carries a %v lock of txn %d", sp, l.Key, l.LockType, l.TxnID))
				}
			}
			entries := cl.Trace.Since(0)
			check := func(truth *sim.Truth, when string) {
				for _, tr := range w.Recs() {
					if tr.StartTS > sp {
						continue
					}
					was, cts := decided(entries, tr.StartTS)
					o, av := sim.OutcomeOf(tr, truth)
					for _, v := range av {
						viol = append(viol, when+": "+v.String())
					}
					switch {
					case was && !o.Committed:
						last, _ := tr.Effective()
						if len(last) > 0 {
							viol = append(viol, fmt.Sprintf("%s: txn %d (start %d) had passed its commit point (commit ts %d) but is not committed", when, tr.ID, tr.StartTS, cts))
						}
					case was && o.Committed && o.CommitTS < cts:
						viol = append(viol, fmt.Sprintf("%s: txn %d (start %d) was committed at %d, the store now shows commit ts %d", when, tr.ID, tr.StartTS, cts, o.CommitTS))
					case !was && o.Committed:
						viol = append(viol, fmt.Sprintf("%s: txn %d (start %d) never passed its commit point but is committed at %d", when, tr.ID, tr.StartTS, o.CommitTS))
					}
					if tr.Told && tr.CommitClass == "ok" && !o.Committed {
						if last, _ := tr.Effective(); len(last) > 0 {
							viol = append(viol, fmt.Sprintf("%s: txn %d was acknowledged committed but is not committed", when, tr.ID))
						}
					}
				}
			}
			mid, err := cl.ReadTruth(cl.Clients[1], keys)
			if err != nil {
				infra = err.Error()
				return
			}
			check(mid, "right after GC")
			// snapshot reads at the safe point and at the last mark must equal the final records
			type obs struct {
				ts  uint64
				got map[string]string
			}
			var reads []obs
			for _, ts := range []uint64{sp, marks[len(marks)-1]} {
				cl.Expire() // later locks may be in the way of the reads at the last mark
				snap := cl.Clients[1].Store.GetSnapshot(ts)
				var ks [][]byte
				for _, k := range keys {
					ks = append(ks, []byte(k))
				}
				m, err := snap.BatchGet(ctx, ks)
				if err != nil {
					viol = append(viol, fmt.Sprintf("snapshot read at %d after GC failed: %v", ts, err))
					continue
				}
				got := map[string]string{}
				for k, v := range m {
					got[k] = string(v.Value)
				}
				reads = append(reads, obs{ts, got})
			}
			final, err := w.Finish()
			if err != nil {
				infra = "recovery: " + err.Error()
				return
			}
			check(final, "after full recovery")
			for _, r := range reads {
				for _, k := range keys {
					want, ok := final.ValueAt(k, r.ts)
					got, gok := r.got[k]
					if ok != gok || (ok && string(want) != got) {
						viol = append(viol, fmt.Sprintf("snapshot read at %d after GC returned %s=%q(found=%v), the final records say %q(found=%v): %s", r.ts, k, got, gok, want, ok, final.Describe([]string{k})))
					}
				}
			}
		}()
		select {
		case <-done:
		case <-time.After(90 * time.Second):
			t.Fatalf("VERIF-INFRA: case did not finish within 90 s\n  case: %s\n  log:\n    %s\n  goroutines:\n%s", desc, strings.Join(w.Log, "\n    "), sim.GoroutineDump())
		}
		if r := cl.Runaway(); r != "" {
			t.Fatalf("VERIF-INFRA: a call did not terminate (judged by C02 / C05): %s\n  case: %s", r, desc)
		}
		if sp := cl.StorePanic(); sp != "" {
			t.Skip("void case: " + sp) // substrate defect (13.6): the case says nothing about the client
		}
		if infra != "" {
			t.Fatalf("VERIF-INFRA: %s\n  case: %s", infra, desc)
		}
		if failMsg != "" {
			viol = append(viol, "actor: "+failMsg)
		}
		if len(viol) > 0 {
			t.Fatalf("GC lock resolution changed outcomes or left locks:\n  %s\n  case: %s\n  log:\n    %s\n  rpc trace:\n    %s", strings.Join(viol, "\n  "), desc, strings.Join(w.Log, "\n    "), strings.ReplaceAll(cl.Trace.Describe(), "\n", "\n    "))
		}
		rec.Case(desc, nontrivial, append(classes, "backend="+backend.String(), fmt.Sprintf("viaGC=%v", useGC)), map[string]any{"case": desc})
	})
}

func TestGCLocks(t *testing.T)    { gcLocks(t, sim.Mock) }
func TestGCLocksUni(t *testing.T) { gcLocks(t, sim.Uni) }

// ---------------------------------------------------------------- (b) range task

func TestRangeTask(t *testing.T) {
	rec := ev.For(t, "C14", "range task runner over generated region layouts (0-7 splits on / off the bound keys, further splits while the task runs), ranges [start,end) with each bound empty (unbounded) or any key, concurrency 1-8, 1-4 regions per task, a handler that records its sub-ranges and optionally fails on its k-th call; oracle: without an injected failure RunOnRange returns nil and the recorded sub-ranges, sorted, start at start, are consecutive (each end = next start), non-empty, and end at end (unbounded included); with an injected failure RunOnRange returns an error; an empty range calls the handler never; non-trivial = at least 2 sub-ranges; distinct = layout + range + parameters")
	rapid.Check(t, func(t *rapid.T) {
		splits := genLayout(t, 7)
		bound := func(name string) string {
			if rapid.IntRange(0, 3).Draw(t, name+"-unbounded") == 0 {
				return ""
			}
			return rapid.SampledFrom(pool).Draw(t, name) + rapid.SampledFrom([]string{"", "0", "5"}).Draw(t, name+"-sfx")
		}
		start, end := bound("start"), bound("end")
		conc := rapid.IntRange(1, 8).Draw(t, "concurrency")
		rpt := rapid.IntRange(1, 4).Draw(t, "regionspertask")
		failAt := rapid.IntRange(-1, 4).Draw(t, "failat")
		splitAt := rapid.IntRange(-1, 3).Draw(t, "splitat")
		splitKey := rapid.SampledFrom(pool).Draw(t, "latesplit") + "7"
		desc := fmt.Sprintf("splits=%q range=[%q,%q) concurrency=%d regionsPerTask=%d failAt=%d lateSplit=%s@%d", splits, start, end, conc, rpt, failAt, splitKey, splitAt)
		cl, err := sim.NewCluster(sim.Mock, 1, 1)
		if err != nil {
			t.Fatalf("VERIF-INFRA: %v", err)
		}
		defer cl.Close()
		for _, k := range splits {
			cl.SplitAt(k)
		}
		var mu sync.Mutex
		var got []kv.KeyRange
		calls := 0
		handler := func(ctx context.Context, r kv.KeyRange) (rangetask.TaskStat, error) {
			mu.Lock()
			defer mu.Unlock()
			n := calls
			calls++
			got = append(got, kv.KeyRange{StartKey: append([]byte{}, r.StartKey...), EndKey: append([]byte{}, r.EndKey...)})
			if n == splitAt {
				cl.SplitAt(splitKey)
			}
			if n == failAt {
				return rangetask.TaskStat{}, errors.New("injected handler failure")
			}
			return rangetask.TaskStat{CompletedRegions: 1}, nil
		}
		runner := rangetask.NewRangeTaskRunner("verif-range-task", cl.Clients[0].Store, conc, handler)
		runner.SetRegionsPerTask(rpt)
		err = runner.RunOnRange(context.Background(), []byte(start), []byte(end))
		sort.Slice(got, func(i, j int) bool { return bytes.Compare(got[i].StartKey, got[j].StartKey) < 0 })
		var rs []string
		for _, r := range got {
			rs = append(rs, fmt.Sprintf("[%q,%q)", r.StartKey, r.EndKey))
		}
		fail := func(f string, a ...any) {
			t.Fatalf("range task: %s\n  case: %s\n  returned: %v\n  sub-ranges: %s", fmt.Sprintf(f, a...), desc, err, strings.Join(rs, " "))
		}
		empty := end != "" && start >= end
		failed := failAt >= 0 && failAt < calls
		switch {
		case empty:
			if calls != 0 || err != nil {
				fail("an empty range must not reach the handler")
			}
		case failed:
			if err == nil {
				fail("a sub-range failed but RunOnRange reported success")
			}
		default:
			if err != nil {
				fail("no sub-range failed but RunOnRange reported an error")
			}
			if len(got) == 0 {
				fail("the handler was never called")
			}
			if string(got[0].StartKey) != start {
				fail("the first sub-range does not start at the range start")
			}
			for i, r := range got {
				if len(r.EndKey) != 0 && bytes.Compare(r.StartKey, r.EndKey) >= 0 {
					fail("sub-range %d is empty or inverted", i)
				}
				if i+1 < len(got) && !bytes.Equal(r.EndKey, got[i+1].StartKey) {
					fail("sub-ranges %d and %d are not consecutive (gap or overlap)", i, i+1)
				}
			}
			if string(got[len(got)-1].EndKey) != end {
				fail("the last sub-range does not end at the range end")
			}
		}
		rec.Case(desc, len(got) >= 2, []string{fmt.Sprintf("failed=%v", failed), fmt.Sprintf("unbounded-end=%v", end == ""), fmt.Sprintf("empty=%v", empty)}, map[string]any{"case": desc, "sub_ranges": rs})
	})
}

// ---------------------------------------------------------------- (c) delete range

func TestDeleteRange(t *testing.T) {
	rec := ev.For(t, "C14", "delete-range task over committed data (3-10 keys with 1-2 versions each) on generated layouts (0-6 splits, 1 or 3 stores, optional split fired at the i-th DeleteRange request), range [start,end) with each bound unbounded or any key, concurrency 1-4; oracle = ordered-map model: afterwards a fresh snapshot sees exactly the keys outside [start,end) with their latest values and none inside; non-trivial = the range covers keys of >= 2 regions; distinct = case text")
	keysPool := []string{"a", "b", "b5", "c", "d", "e", "e0", "f", "g", "h"}
	rapid.Check(t, func(t *rapid.T) {
		nStores := rapid.SampledFrom([]int{1, 3}).Draw(t, "stores")
		splits := genLayout(t, 6)
		nKeys := rapid.IntRange(3, 10).Draw(t, "nkeys")
		keys := append([]string{}, rapid.Permutation(keysPool).Draw(t, "keys")[:nKeys]...)
		sort.Strings(keys)
		bound := func(name string) string {
			if rapid.IntRange(0, 3).Draw(t, name+"-unbounded") == 0 {
				return ""
			}
			return rapid.SampledFrom(keysPool).Draw(t, name) + rapid.SampledFrom([]string{"", "0"}).Draw(t, name+"-sfx")
		}
		start, end := bound("start"), bound("end")
		conc := rapid.IntRange(1, 4).Draw(t, "concurrency")
		gateIdx := rapid.IntRange(-1, 2).Draw(t, "gateidx")
		gateKey := rapid.SampledFrom(keysPool).Draw(t, "gatekey") + "3"
		desc := fmt.Sprintf("stores=%d splits=%q keys=%v range=[%q,%q) concurrency=%d split(%s)@DeleteRange#%d", nStores, splits, keys, start, end, conc, gateKey, gateIdx)
		cl, err := sim.NewCluster(sim.Mock, nStores, 2)
		if err != nil {
			t.Fatalf("VERIF-INFRA: %v", err)
		}
		defer cl.Close()
		for _, k := range splits {
			cl.SplitAt(k)
		}
		model := map[string]string{}
		ctx := context.Background()
		for round := 0; round < 2; round++ {
			txn, _ := cl.Clients[0].Store.Begin()
			for i, k := range keys {
				if round == 1 && i%2 == 0 {
					continue
				}
				v := fmt.Sprintf("v%d.%s", round, k)
				_ = txn.Set([]byte(k), []byte(v))
				model[k] = v
			}
			if err := txn.Commit(ctx); err != nil {
				t.Fatalf("VERIF-INFRA: %v", err)
			}
		}
		// let the asynchronous secondary commits finish: delete-range also wipes transaction records, and a
		// secondary lock whose primary record was wiped could not be resolved before its ttl
		cl.Drain(3*time.Millisecond, 2*time.Second)
		// ... and make sure of it (on a loaded machine the committing goroutine may not have started within the quiet
		// window): no lock may be left before the task starts
		for poll := 0; ; poll++ {
			probe := tikv.StoreProbe{KVStore: cl.Clients[1].Store}
			left, err := probe.ScanLocks(ctx, nil, []byte{0xff, 0xff}, math.MaxUint64)
			if err == nil && len(left) == 0 {
				break
			}
			if poll > 5000 {
				t.Fatalf("VERIF-INFRA: set-up transactions still hold %d locks (%v)", len(left), err)
			}
			time.Sleep(2 * time.Millisecond)
		}
		if gateIdx >= 0 {
			cl.Clients[0].Net.Arm(cl.NextCall(), 0, []*sim.Fault{{Type: tikvrpc.CmdDeleteRange, Index: gateIdx, Action: "gateBefore", Gate: func() { cl.SplitAt(gateKey) }}})
		}
		before := cl.Trace.Len()
		task := rangetask.NewDeleteRangeTask(cl.Clients[0].Store, []byte(start), []byte(end), conc)
		err = task.Execute(ctx)
		cl.Clients[0].Net.Disarm()
		if err != nil {
			t.Fatalf("delete range failed without any lost message: %v\n  case: %s\n  rpc trace:\n    %s", err, desc, strings.ReplaceAll(cl.Trace.Describe(), "\n", "\n    "))
		}
		regs := map[uint64]bool{}
		for _, e := range cl.Trace.Since(before) {
			if e.Type == tikvrpc.CmdDeleteRange {
				regs[e.RegionID] = true
			}
		}
		inRange := func(k string) bool { return k >= start && (end == "" || k < end) }
		if end != "" && start >= end {
			inRange = func(string) bool { return false }
		}
		ts, _ := cl.Clients[1].Store.CurrentTimestamp("global")
		snap := cl.Clients[1].Store.GetSnapshot(ts)
		it, err := snap.Iter(nil, nil)
		if err != nil {
			t.Fatalf("VERIF-INFRA: %v", err)
		}
		got := map[string]string{}
		for it.Valid() {
			got[string(it.Key())] = string(it.Value())
			if err := it.Next(); err != nil {
				t.Fatalf("VERIF-INFRA: %v", err)
			}
		}
		it.Close()
		for _, k := range keys {
			v, ok := got[k]
			switch {
			case inRange(k) && ok:
				t.Fatalf("delete range [%q,%q) left key %s=%q behind\n  case: %s\n  rpc trace:\n    %s", start, end, k, v, desc, strings.ReplaceAll(cl.Trace.Describe(), "\n", "\n    "))
			case !inRange(k) && (!ok || v != model[k]):
				t.Fatalf("delete range [%q,%q) damaged key %s outside the range: got %q (found=%v), want %q\n  case: %s\n  rpc trace:\n    %s", start, end, k, v, ok, model[k], desc, strings.ReplaceAll(cl.Trace.Describe(), "\n", "\n    "))
			}
		}
		rec.Case(desc, len(regs) >= 2, []string{fmt.Sprintf("regions>=2=%v", len(regs) >= 2), fmt.Sprintf("unbounded-end=%v", end == "")}, map[string]any{"case": desc})
	})
}

// ---------------------------------------------------------------- (d) reads below the transaction safe point

func TestSafePointRefusal(t *testing.T) {
	rec := ev.For(t, "C14", "the store's cached transaction safe point is set to sp (StoreProbe.UpdateTxnSafePointCache, fresh cache time) and a snapshot at ts in {sp-2 .. sp+2, far below, far above} performs get / batch-get / scan / reverse scan over committed data; oracle: ts < sp => the read fails with the aborted-by-GC error, ts >= sp => it is served with the committed value; non-trivial = |ts - sp| <= 1; distinct = (path, ts - sp)")
	cl, err := sim.NewCluster(sim.Mock, 1, 2)
	if err != nil {
		t.Fatalf("VERIF-INFRA: %v", err)
	}
	defer cl.Close()
	cl.SplitAt("c")
	ctx := context.Background()
	txn, _ := cl.Clients[0].Store.Begin()
	for _, k := range []string{"a", "d"} {
		_ = txn.Set([]byte(k), []byte("v"+k))
	}
	if err := txn.Commit(ctx); err != nil {
		t.Fatalf("VERIF-INFRA: %v", err)
	}
	base, _ := cl.Clients[1].Store.CurrentTimestamp("global")
	probe := tikv.StoreProbe{KVStore: cl.Clients[1].Store}
	rapid.Check(t, func(t *rapid.T) {
		sp := base + uint64(rapid.IntRange(10, 1000).Draw(t, "sp"))
		delta := rapid.SampledFrom([]int64{-2, -1, 0, 1, 2, -500, 500}).Draw(t, "delta")
		ts := uint64(int64(sp) + delta)
		path := rapid.SampledFrom([]string{"get", "batchget", "iter", "iterrev"}).Draw(t, "path")
		probe.UpdateTxnSafePointCache(sp, time.Now())
		snap := cl.Clients[1].Store.GetSnapshot(ts)
		var err error
		served := ""
		switch path {
		case "get":
			var v kv.ValueEntry
			v, err = snap.Get(ctx, []byte("a"))
			served = string(v.Value)
		case "batchget":
			var m map[string]kv.ValueEntry
			m, err = snap.BatchGet(ctx, [][]byte{[]byte("a"), []byte("d")})
			served = string(m["a"].Value)
		case "iter":
			it, e := snap.Iter([]byte("a"), nil)
			if err = e; e == nil {
				served = string(it.Value())
				it.Close()
			}
		case "iterrev":
			it, e := snap.IterReverse([]byte("b"), nil)
			if err = e; e == nil {
				served = string(it.Value())
				it.Close()
			}
		}
		var gcErr *tikverr.ErrTxnAbortedByGC
		aborted := errors.As(err, &gcErr)
		switch {
		case ts < sp && !aborted:
			t.Fatalf("%s at ts %d below the transaction safe point %d was not refused with the aborted-by-GC error: served %q, err %v", path, ts, sp, served, err)
		case ts >= sp && (err != nil || served != "va"):
			t.Fatalf("%s at ts %d at or above the transaction safe point %d was not served: got %q, err %v", path, ts, sp, served, err)
		}
		rec.Case(fmt.Sprintf("%s/%d", path, delta), delta >= -1 && delta <= 1, []string{"path=" + path, fmt.Sprintf("below=%v", ts < sp)}, map[string]any{"path": path, "ts_minus_safepoint": delta})
	})
	probe.UpdateTxnSafePointCache(0, time.Now())
}
