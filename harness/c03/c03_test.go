// Package c03 decides property C03: whatever lost messages, region errors, splits and
// resolver races happen during Commit, its answer is truthful.
package c03

import (
	"fmt"
	"strings"
	"testing"

	"github.com/pingcap/kvproto/pkg/kvrpcpb"
	"github.com/tikv/client-go/v2/tikvrpc"
	"github.com/tikv/client-go/v2/verif/ev"
	_ "github.com/tikv/client-go/v2/verif/quiet"
	"github.com/tikv/client-go/v2/verif/scen"
	"github.com/tikv/client-go/v2/verif/sim"
	"pgregory.net/rapid"
)

var actions = []string{"dropRequest", "dropResponse", "notLeader", "epochNotMatch", "serverIsBusy", "staleCommand", "regionNotFound", "raceBefore", "raceAfter", "splitBefore", "leaderBefore"}

// fault builds the fault spec of one (position, action); race = a resolver of another client that considers
// every lock expired and reads / resolves while the request is parked.
func fault(p *scen.Program, typ string, idx int, action string, race []*sim.Step) sim.FaultSpec {
	fs := sim.FaultSpec{Type: typ, Index: idx, Action: action}
	switch action {
	case "raceBefore", "raceAfter":
		fs.Action = "gate" + strings.TrimPrefix(action, "race")
		fs.Nested = &sim.Step{Op: "seq", Sub: append([]*sim.Step{{Op: "expire", Client: 1}}, race...)}
	case "splitBefore":
		fs.Action = "gateBefore"
		fs.Nested = &sim.Step{Op: "split", Keys: []string{p.Keys[idx%len(p.Keys)] + "3"}}
	case "leaderBefore":
		fs.Action = "gateBefore"
		fs.Nested = &sim.Step{Op: "leader", Keys: []string{p.Keys[idx%len(p.Keys)]}, Ms: int64(idx)}
	}
	return fs
}

// undeterminedJustified reports whether the victim's Commit sent a request that could have moved the commit
// point and lost its outcome: a Commit request carrying the primary key, or an async-commit / 1PC prewrite.
func undeterminedJustified(entries []*sim.Entry, start uint64) (bool, string) {
	for _, e := range entries {
		if e.Err == "" || e.Answered {
			continue
		}
		switch r := e.Req.(type) {
		case *kvrpcpb.PrewriteRequest:
			if r.StartVersion == start && (r.UseAsyncCommit || r.TryOnePc) {
				return true, sim.DescribeEntry(e)
			}
		case *kvrpcpb.CommitRequest:
			if r.StartVersion == start && e.Type == tikvrpc.CmdCommit {
				return true, sim.DescribeEntry(e)
			}
		}
	}
	return false, ""
}

const rule = "generated scenario (as in C02: initial data, one victim transaction of 1-5 writes, optimistic | pessimistic, 2PC on mocktikv with 1 or 3 stores, async commit / 1PC on unistore, optional conflicting commit); a fault-free twin run counts the N requests of Commit and must not return 'undetermined'; then one run per request position i<N and fault in {request lost, response lost (time-out), NotLeader, EpochNotMatch, ServerIsBusy, StaleCommand, RegionNotFound, region split before the request, leader transfer before the request, resolver race before / after the request = another client whose clock makes every lock look expired reads and resolves while the request is parked}, plus generated plans of 2-4 simultaneous faults addressed by request type and index; afterwards all locks expire, recovery transactions run, an auditor resolves the rest and the raw MVCC records are read; oracle: nil => every written key committed with one commit ts and the reported commit ts; error other than undetermined => no key committed, now or after recovery; undetermined => the trace contains a lost Commit(primary) or lost async-commit / 1PC prewrite of that transaction; atomicity; no lock left; non-trivial = a fault was injected into a Prewrite / Commit / PessimisticRollback / resolve request of the victim and Commit's answer or the trace differs from the twin; distinct = scenario + fault plan"

func truthful(t *testing.T, backend sim.Backend) {
	rec := ev.For(t, "C03", rule)
	maxPoints := 6
	if ev.Thorough() {
		maxPoints = 1000
	}
	// the rules of this property: acknowledgement truthfulness, atomicity (always on), no lock left; the isolation
	// rules (reads, write-write, inserts) belong to C01 and are judged there
	rules := map[string]bool{"ack": true, "nolock": true}
	if backend == sim.Mock {
		rules["read"] = true // unistore's resolver client runs on a skewed clock: its reads are not judged
	}
	rapid.Check(t, func(t *rapid.T) {
		p := scen.Gen(t, backend)
		var race []*sim.Step
		for j := rapid.IntRange(1, 2).Draw(t, "nrace"); j > 0; j-- {
			race = append(race, scen.GenReader(t, backend, p.Keys, 300+j, 1, backend == sim.Mock)...)
		}
		check := func(o scen.Outcome, plan string, faultFree bool) {
			if o.Hung != "" {
				t.Fatalf("VERIF-INFRA: %s\n  plan=%s\n  scenario: %s", o.Hung, plan, p)
			}
			if o.Void != "" {
				t.Skip("void case: " + o.Void)
			}
			if o.Infra != "" {
				t.Fatalf("VERIF-INFRA: %s | plan=%s | %s", o.Infra, plan, p)
			}
			var real []sim.Violation
			for _, v := range o.Viol {
				if v.Rule == "termination" {
					t.Fatalf("VERIF-INFRA: a call did not terminate (judged by C02 / C05, not by this property): %s\n  plan=%s\n  scenario: %s", v.Msg, plan, p)
				}
				if v.Known != "" && rec.Excluding(v.Known) {
					continue
				}
				real = append(real, v)
			}
			o.Viol = real
			if v := o.Victim; v != nil && v.Ended == "commit" && v.CommitClass == "undetermined" {
				if faultFree {
					o.Viol = append(o.Viol, sim.Violation{Rule: "undetermined", Msg: "Commit returned 'result undetermined' in a fault-free run"})
				} else if ok, _ := undeterminedJustified(o.Entries, v.StartTS); !ok {
					o.Viol = append(o.Viol, sim.Violation{Rule: "undetermined", Msg: "Commit returned 'result undetermined' although no request that could move the commit point (Commit of the primary, async-commit / 1PC prewrite) lost its outcome"})
				}
			}
			if len(o.Viol) > 0 {
				t.Fatalf("Commit's answer is not truthful:\n  fault plan: %s\n  race steps: %s\n  %s", plan, scen.Steps(race), o.Describe(p))
			}
		}
		base := scen.Run(p, scen.Opts{Rules: rules})
		check(base, "none", true)
		if base.Victim == nil || base.Victim.Ended != "commit" {
			return
		}
		rec.Case(fmt.Sprintf("%s|none", p), false, []string{"plan=none", "answer=" + base.Victim.CommitClass}, nil)
		n := base.RPCs
		var points []int
		for i := 0; i < n; i++ {
			points = append(points, i)
		}
		if len(points) > maxPoints {
			var sub []int
			for j := 0; j < maxPoints; j++ {
				sub = append(sub, points[j*(len(points)-1)/(maxPoints-1)])
			}
			points = sub
		}
		record := func(o scen.Outcome, plan string, kinds []string) {
			v := o.Victim
			if v == nil {
				return
			}
			classes := []string{"answer=" + v.CommitClass, "fate=" + o.Fate, "backend=" + backend.String(), "path=" + sim.ModeOf(o.Entries, v.StartTS)}
			for _, k := range kinds {
				classes = append(classes, "fault="+k)
			}
			hit := false
			for _, e := range o.Entries {
				if e.Injected != "" && e.Injected != "dead" {
					hit = true
				}
			}
			differs := v.CommitClass != base.Victim.CommitClass || o.RPCs != base.RPCs || o.Fate != base.Fate
			var sample map[string]any
			if hit && differs {
				sample = map[string]any{"scenario": p.String(), "plan": plan, "answer": v.CommitClass, "fate": o.Fate, "twin_answer": base.Victim.CommitClass}
			}
			rec.Case(fmt.Sprintf("%s|%s|%s", p, plan, scen.Steps(race)), hit && differs, classes, sample)
		}
		acts := actions
		if backend == sim.Uni {
			// unistore's prewrite ignores the transaction's own rollback record, so a resolver that rolled the
			// victim back (CheckSecondaryLocks / ResolveLock) cannot stop the victim's remaining prewrites as TiKV
			// does; races between a live committer and a resolver are therefore examined on mocktikv only
			acts = nil
			for _, a := range actions {
				if !strings.HasPrefix(a, "race") {
					acts = append(acts, a)
				}
			}
		}
		for _, i := range points {
			for _, a := range acts {
				if a == "leaderBefore" && p.NStores == 1 {
					continue
				}
				fs := fault(p, "", i, a, race)
				o := scen.Run(p, scen.Opts{Faults: []sim.FaultSpec{fs}, Rules: rules})
				plan := fmt.Sprintf("%s@#%d/%d", a, i, n)
				check(o, plan, false)
				record(o, plan, []string{a})
			}
		}
		// plans of several simultaneous faults, addressed by request type
		types := map[string]int{}
		for _, e := range base.Entries {
			if e.CallID != 0 && e.Client == 0 {
				types[e.Type.String()]++
			}
		}
		var tnames []string
		for _, cand := range []string{"Prewrite", "Commit", "PessimisticRollback", "BatchRollback", "CheckTxnStatus", "ResolveLock"} {
			if types[cand] > 0 || cand == "Prewrite" || cand == "Commit" {
				tnames = append(tnames, cand)
			}
		}
		for k := rapid.IntRange(1, 3).Draw(t, "nplans"); k > 0; k-- {
			var fss []sim.FaultSpec
			var kinds, names []string
			for f := rapid.IntRange(2, 4).Draw(t, "nfaults"); f > 0; f-- {
				typ := rapid.SampledFrom(tnames).Draw(t, "ftype")
				idx := rapid.IntRange(0, 3).Draw(t, "findex")
				a := rapid.SampledFrom(acts).Draw(t, "faction")
				if a == "leaderBefore" && p.NStores == 1 {
					a = "serverIsBusy"
				}
				fss = append(fss, fault(p, typ, idx, a, race))
				kinds = append(kinds, a)
				names = append(names, fmt.Sprintf("%s@%s#%d", a, typ, idx))
			}
			plan := strings.Join(names, "+")
			o := scen.Run(p, scen.Opts{Faults: fss, Rules: rules})
			check(o, plan, false)
			record(o, plan, append(kinds, "multi"))
		}
	})
}

func TestTruthful(t *testing.T)    { truthful(t, sim.Mock) }
func TestTruthfulUni(t *testing.T) { truthful(t, sim.Uni) }
