// Package ev is the evidence recorder shared by every property package.
//
// A test calls rec := ev.For(t, "C19", rule) once and rec.Case(...) once per
// generated case. On test cleanup the recorder writes a *partial* evidence file
// (path from $VERIF_EVIDENCE_PART, suffixed with the test name) which the
// /verif/check driver merges over tests and shards into /verif/evidence/<id>.json.
package ev

import (
	"encoding/json"
	"fmt"
	"hash/fnv"
	"os"
	"sort"
	"strconv"
	"strings"
	"sync"
	"sync/atomic"
	"testing"
	"time"
)

const maxSamples = 6

// Recorder accumulates per-case coverage facts for one test function.
type Recorder struct {
	mu          sync.Mutex
	Property    string          `json:"property"`
	Test        string          `json:"test"`
	Rule        string          `json:"rule"`
	Evaluations int             `json:"evaluations"`
	Nontrivial  int             `json:"nontrivial_evaluations"`
	Prints      map[uint64]bool `json:"-"`
	PrintList   []string        `json:"fingerprints"`
	Classes     map[string]int  `json:"classes"`
	Samples     []any           `json:"samples"`
	Assumptions []string        `json:"assumptions"`
	Exhaustive  bool            `json:"exhaustive"`
	Extra       map[string]any  `json:"extra"`
	Known       map[string]int  `json:"known_hits"`
	Excluded    int             `json:"excluded_known"`
	path        string
	known       map[string]string // key -> description (status known only)
	announced   map[string]bool
}

var (
	allMu sync.Mutex
	all   = map[string]*Recorder{}
)

// For returns the recorder of the calling test (created on first use).
func For(t testing.TB, property, rule string) *Recorder {
	allMu.Lock()
	defer allMu.Unlock()
	name := t.Name()
	if i := strings.IndexByte(name, '/'); i >= 0 {
		name = name[:i]
	}
	if r, ok := all[name]; ok {
		return r
	}
	r := &Recorder{Property: property, Test: name, Rule: rule, Prints: map[uint64]bool{},
		Classes: map[string]int{}, Extra: map[string]any{}, Known: map[string]int{},
		announced: map[string]bool{}}
	if p := os.Getenv("VERIF_EVIDENCE_PART"); p != "" {
		r.path = p + "." + name + ".json"
	}
	r.loadKnown()
	all[name] = r
	t.Cleanup(r.Flush)
	return r
}

// Tier is "quick" or "thorough".
func Tier() string {
	if os.Getenv("VERIF_TIER") == "thorough" {
		return "thorough"
	}
	return "quick"
}

// Thorough reports whether the thorough tier is running.
func Thorough() bool { return Tier() == "thorough" }

// Scale returns q in the quick tier and th in the thorough tier.
func Scale(q, th int) int {
	if Thorough() {
		return th
	}
	return q
}

// Seed is the integer the driver derived from VERIF_SEED for this shard.
func Seed() int64 {
	v, _ := strconv.ParseInt(os.Getenv("VERIF_SHARD_SEED"), 10, 64)
	if v == 0 {
		v = 1
	}
	return v
}

// Shard returns (index, count) of this process among the thorough-tier shards.
func Shard() (int, int) {
	i, _ := strconv.Atoi(os.Getenv("VERIF_SHARD"))
	n, _ := strconv.Atoi(os.Getenv("VERIF_SHARDS"))
	if n <= 0 {
		n = 1
	}
	return i, n
}

// Case records one generated case.
func (r *Recorder) Case(fingerprint string, nontrivial bool, classes []string, sample any) {
	r.mu.Lock()
	defer r.mu.Unlock()
	r.Evaluations++
	for _, c := range classes {
		r.Classes[c]++
	}
	if nontrivial {
		r.Nontrivial++
		h := fnv.New64a()
		h.Write([]byte(fingerprint))
		s := h.Sum64()
		if !r.Prints[s] {
			r.Prints[s] = true
			if len(r.Samples) < maxSamples && sample != nil {
				r.Samples = append(r.Samples, sample)
			}
		}
	}
}

// Class bumps a class counter outside Case (e.g. per step).
func (r *Recorder) Class(c string, n int) {
	r.mu.Lock()
	r.Classes[c] += n
	r.mu.Unlock()
}

// Assume records a stated assumption (deduplicated).
func (r *Recorder) Assume(s string) {
	r.mu.Lock()
	defer r.mu.Unlock()
	for _, a := range r.Assumptions {
		if a == s {
			return
		}
	}
	r.Assumptions = append(r.Assumptions, s)
}

// SetExtra stores an additional coverage key.
func (r *Recorder) SetExtra(k string, v any) {
	r.mu.Lock()
	r.Extra[k] = v
	r.mu.Unlock()
}

// SetExhaustive marks the run as a complete enumeration of its finite space.
func (r *Recorder) SetExhaustive(b bool) {
	r.mu.Lock()
	r.Exhaustive = b
	r.mu.Unlock()
}

type knownFile struct {
	Findings []struct {
		Property string `json:"property"`
		Key      string `json:"key"`
		Status   string `json:"status"`
		What     string `json:"what"`
	} `json:"findings"`
}

func (r *Recorder) loadKnown() {
	r.known = map[string]string{}
	p := os.Getenv("VERIF_KNOWN")
	if p == "" {
		p = "/verif/known_findings.json"
	}
	b, err := os.ReadFile(p)
	if err != nil {
		return
	}
	var kf knownFile
	if json.Unmarshal(b, &kf) != nil {
		return
	}
	for _, f := range kf.Findings {
		if f.Property == r.Property && f.Status == "known" {
			r.known[f.Key] = f.What
		}
	}
}

// IsKnown reports whether a violation with this canonical key is a listed
// known finding. If so it prints the KNOWN-FINDING line (once per process) and
// counts the hit; the caller then skips/excludes the case instead of failing.
func (r *Recorder) IsKnown(key string) bool {
	r.mu.Lock()
	defer r.mu.Unlock()
	what, ok := r.known[key]
	if !ok {
		return false
	}
	r.Known[key]++
	r.Excluded++
	if !r.announced[key] {
		r.announced[key] = true
		fmt.Printf("KNOWN-FINDING: property=%s %s (%s)\n", r.Property, key, what)
	}
	return true
}

// Excluding reports whether key is a listed known finding whose input class a generator
// excludes by construction; it counts the exclusion and prints nothing.
func (r *Recorder) Excluding(key string) bool {
	r.mu.Lock()
	defer r.mu.Unlock()
	if _, ok := r.known[key]; !ok {
		return false
	}
	r.Excluded++
	return true
}

// Flush writes the partial evidence file.
func (r *Recorder) Flush() {
	r.mu.Lock()
	defer r.mu.Unlock()
	if r.path == "" {
		return
	}
	r.PrintList = r.PrintList[:0]
	for h := range r.Prints {
		r.PrintList = append(r.PrintList, strconv.FormatUint(h, 16))
	}
	sort.Strings(r.PrintList)
	b, err := json.Marshal(r)
	if err != nil {
		// samples must be JSON-encodable; fall back to their %v form.
		for i, s := range r.Samples {
			r.Samples[i] = fmt.Sprintf("%v", s)
		}
		b, _ = json.Marshal(r)
	}
	_ = os.WriteFile(r.path, b, 0o644)
}

// Await waits for a value on ch for up to `slices` slices of 100 ms of time observed by this process. A single
// wall-clock deadline is not used for verdicts: if the whole process (or the VM) is paused or starved past the
// deadline, timer and value become ready together and select picks either. A pause costs one slice here.
func Await[T any](ch <-chan T, slices int) (v T, ok bool) {
	for i := 0; i < slices; i++ {
		select {
		case v = <-ch:
			return v, true
		case <-time.After(100 * time.Millisecond):
		}
	}
	select {
	case v = <-ch:
		return v, true
	default:
		return v, false
	}
}

var (
	tickOnce sync.Once
	ticks    atomic.Int64
)

// Observed returns the time this process has observed passing since the first call, counted in completed 5 ms
// sleeps of a background goroutine. It never runs ahead of the wall clock and stands still while the process (or
// the VM) is paused, so a duration measured with it cannot be inflated by a pause; verdicts about "returned within
// its time-out" are taken on this clock.
func Observed() time.Duration {
	tickOnce.Do(func() {
		go func() {
			for {
				time.Sleep(5 * time.Millisecond)
				ticks.Add(1)
			}
		}()
	})
	return time.Duration(ticks.Load()) * 5 * time.Millisecond
}
