// Package c10 decides property C10: a request send ends within its retry budget
// with a genuine response / a region error / an error, and never mislabels the
// read mode (replica-read / stale-read flags on writes, retry marker, ts validation).
package c10

import (
	"context"
	"fmt"
	"math/rand"
	"sort"
	"strings"
	"testing"
	"time"

	"github.com/pingcap/failpoint"
	"github.com/pingcap/kvproto/pkg/errorpb"
	"github.com/pingcap/kvproto/pkg/kvrpcpb"
	"github.com/pingcap/kvproto/pkg/metapb"
	"github.com/pkg/errors"
	"github.com/tikv/client-go/v2/config"
	"github.com/tikv/client-go/v2/config/retry"
	"github.com/tikv/client-go/v2/internal/apicodec"
	"github.com/tikv/client-go/v2/internal/client"
	"github.com/tikv/client-go/v2/internal/locate"
	"github.com/tikv/client-go/v2/internal/mockstore/mocktikv"
	"github.com/tikv/client-go/v2/kv"
	"github.com/tikv/client-go/v2/oracle"
	"github.com/tikv/client-go/v2/tikvrpc"
	"github.com/tikv/client-go/v2/util"
	"github.com/tikv/client-go/v2/util/async"
	"github.com/tikv/client-go/v2/verif/ev"
	_ "github.com/tikv/client-go/v2/verif/quiet"
	"google.golang.org/grpc/codes"
	"google.golang.org/grpc/status"
	"pgregory.net/rapid"
)

// ---------------------------------------------------------------- scripted store client

type attempt struct {
	Addr        string
	StoreID     uint64
	PeerStore   uint64
	ReplicaRead bool
	StaleRead   bool
	Retry       bool
	Forwarded   string
	Action      string
	SleepBefore int
}

type scripted struct {
	script   []string
	terminal string
	attempts []attempt
	okResps  map[*tikvrpc.Response]bool
	bo       *retry.Backoffer
	region   *metapb.Region
	leader   *metapb.Peer
	addrOf   map[uint64]string
	storeOf  map[string]uint64
	hintIdx  int
	closed   []string
}

func (c *scripted) Close() error                                { return nil }
func (c *scripted) CloseAddr(addr string) error                 { c.closed = append(c.closed, addr); return nil }
func (c *scripted) SetEventListener(client.ClientEventListener) {}
func (c *scripted) SendRequestAsync(ctx context.Context, addr string, req *tikvrpc.Request, cb async.Callback[*tikvrpc.Response]) {
	resp, err := c.SendRequest(ctx, addr, req, 0)
	cb.Invoke(resp, err)
}

func (c *scripted) SendRequest(ctx context.Context, addr string, req *tikvrpc.Request, timeout time.Duration) (*tikvrpc.Response, error) {
	action := c.terminal
	if n := len(c.attempts); n < len(c.script) {
		action = c.script[n]
	}
	a := attempt{Addr: addr, StoreID: c.storeOf[addr], ReplicaRead: req.ReplicaRead, StaleRead: req.StaleRead, Retry: req.IsRetryRequest, Forwarded: req.ForwardedHost, Action: action, SleepBefore: c.bo.GetTotalSleep()}
	if req.Peer != nil {
		a.PeerStore = req.Peer.StoreId
	}
	c.attempts = append(c.attempts, a)
	if len(c.attempts) > 3000 {
		panic("VERIF: more than 3000 attempts in one send")
	}
	regionErr := func(e *errorpb.Error) (*tikvrpc.Response, error) {
		e.Message = action
		return tikvrpc.GenRegionErrorResp(req, e)
	}
	otherPeer := func() *metapb.Peer {
		// a leader hint that differs from the peer just tried, rotating through the region's peers
		for i := 0; i < len(c.region.Peers); i++ {
			c.hintIdx++
			p := c.region.Peers[c.hintIdx%len(c.region.Peers)]
			if p.StoreId != a.PeerStore && p.Role != metapb.PeerRole_Learner {
				return p
			}
		}
		return c.region.Peers[0]
	}
	switch action {
	case "ok":
		var r *tikvrpc.Response
		switch req.Type {
		case tikvrpc.CmdGet:
			r = &tikvrpc.Response{Resp: &kvrpcpb.GetResponse{Value: []byte("v")}}
		case tikvrpc.CmdScan:
			r = &tikvrpc.Response{Resp: &kvrpcpb.ScanResponse{}}
		case tikvrpc.CmdBatchGet:
			r = &tikvrpc.Response{Resp: &kvrpcpb.BatchGetResponse{}}
		case tikvrpc.CmdPrewrite:
			r = &tikvrpc.Response{Resp: &kvrpcpb.PrewriteResponse{}}
		case tikvrpc.CmdCommit:
			r = &tikvrpc.Response{Resp: &kvrpcpb.CommitResponse{}}
		case tikvrpc.CmdPessimisticLock:
			r = &tikvrpc.Response{Resp: &kvrpcpb.PessimisticLockResponse{}}
		case tikvrpc.CmdResolveLock:
			r = &tikvrpc.Response{Resp: &kvrpcpb.ResolveLockResponse{}}
		default:
			r = &tikvrpc.Response{Resp: &kvrpcpb.GetResponse{}}
		}
		c.okResps[r] = true
		return r, nil
	case "rpcError":
		return nil, errors.New("injected transport error")
	case "deadline":
		return nil, context.DeadlineExceeded
	case "grpcDeadline":
		return nil, status.Error(codes.DeadlineExceeded, "injected")
	case "grpcCanceled":
		return nil, status.Error(codes.Canceled, "injected")
	case "grpcUnavailable":
		return nil, status.Error(codes.Unavailable, "injected")
	case "notLeader":
		return regionErr(&errorpb.Error{NotLeader: &errorpb.NotLeader{RegionId: c.region.Id}})
	case "notLeaderHint":
		return regionErr(&errorpb.Error{NotLeader: &errorpb.NotLeader{RegionId: c.region.Id, Leader: otherPeer()}})
	case "epochNotMatch":
		return regionErr(&errorpb.Error{EpochNotMatch: &errorpb.EpochNotMatch{}})
	case "epochNotMatchRegions":
		nr := *c.region
		nr.RegionEpoch = &metapb.RegionEpoch{ConfVer: c.region.RegionEpoch.GetConfVer(), Version: c.region.RegionEpoch.GetVersion() + 1}
		return regionErr(&errorpb.Error{EpochNotMatch: &errorpb.EpochNotMatch{CurrentRegions: []*metapb.Region{&nr}}})
	case "regionNotFound":
		return regionErr(&errorpb.Error{RegionNotFound: &errorpb.RegionNotFound{RegionId: c.region.Id}})
	case "serverIsBusy":
		return regionErr(&errorpb.Error{ServerIsBusy: &errorpb.ServerIsBusy{Reason: "busy"}})
	case "serverIsBusyWait":
		return regionErr(&errorpb.Error{ServerIsBusy: &errorpb.ServerIsBusy{Reason: "busy", EstimatedWaitMs: 50}})
	case "staleCommand":
		return regionErr(&errorpb.Error{StaleCommand: &errorpb.StaleCommand{}})
	case "storeNotMatch":
		return regionErr(&errorpb.Error{StoreNotMatch: &errorpb.StoreNotMatch{RequestStoreId: a.PeerStore, ActualStoreId: a.PeerStore + 100}})
	case "dataIsNotReady":
		return regionErr(&errorpb.Error{DataIsNotReady: &errorpb.DataIsNotReady{RegionId: c.region.Id}})
	case "maxTimestampNotSynced":
		return regionErr(&errorpb.Error{MaxTimestampNotSynced: &errorpb.MaxTimestampNotSynced{}})
	case "diskFull":
		return regionErr(&errorpb.Error{DiskFull: &errorpb.DiskFull{StoreId: []uint64{a.PeerStore}, Reason: "full"}})
	case "regionNotInitialized":
		return regionErr(&errorpb.Error{RegionNotInitialized: &errorpb.RegionNotInitialized{RegionId: c.region.Id}})
	case "readIndexNotReady":
		return regionErr(&errorpb.Error{ReadIndexNotReady: &errorpb.ReadIndexNotReady{}})
	case "proposalInMergingMode":
		return regionErr(&errorpb.Error{ProposalInMergingMode: &errorpb.ProposalInMergingMode{}})
	case "recoveryInProgress":
		return regionErr(&errorpb.Error{RecoveryInProgress: &errorpb.RecoveryInProgress{RegionId: c.region.Id}})
	case "isWitness":
		return regionErr(&errorpb.Error{IsWitness: &errorpb.IsWitness{RegionId: c.region.Id}})
	case "keyNotInRegion":
		return regionErr(&errorpb.Error{KeyNotInRegion: &errorpb.KeyNotInRegion{}})
	case "raftEntryTooLarge":
		return regionErr(&errorpb.Error{RaftEntryTooLarge: &errorpb.RaftEntryTooLarge{}})
	case "unknownRegionError":
		return regionErr(&errorpb.Error{})
	}
	panic("VERIF: unknown scripted action " + action)
}

var errKinds = []string{"rpcError", "deadline", "grpcDeadline", "grpcCanceled", "grpcUnavailable", "notLeader", "notLeaderHint", "epochNotMatch", "epochNotMatchRegions",
	"regionNotFound", "serverIsBusy", "serverIsBusyWait", "staleCommand", "storeNotMatch", "dataIsNotReady", "maxTimestampNotSynced", "diskFull", "regionNotInitialized",
	"readIndexNotReady", "proposalInMergingMode", "recoveryInProgress", "isWitness", "keyNotInRegion", "raftEntryTooLarge", "unknownRegionError"}

type validator struct {
	reject map[uint64]bool
	calls  int
}

func (v *validator) ValidateReadTS(ctx context.Context, readTS uint64, isStaleRead bool, opt *oracle.Option) error {
	v.calls++
	if v.reject[readTS] {
		return oracle.ErrFutureTSRead{ReadTS: readTS, CurrentTS: readTS - 1}
	}
	return nil
}

type cmdSpec struct {
	name  string
	typ   tikvrpc.CmdType
	read  bool
	build func(ts uint64) interface{}
}

var cmds = []cmdSpec{
	{"Get", tikvrpc.CmdGet, true, func(ts uint64) interface{} { return &kvrpcpb.GetRequest{Key: []byte("a"), Version: ts} }},
	{"Scan", tikvrpc.CmdScan, true, func(ts uint64) interface{} { return &kvrpcpb.ScanRequest{StartKey: []byte("a"), Limit: 1, Version: ts} }},
	{"BatchGet", tikvrpc.CmdBatchGet, true, func(ts uint64) interface{} { return &kvrpcpb.BatchGetRequest{Keys: [][]byte{[]byte("a")}, Version: ts} }},
	{"Prewrite", tikvrpc.CmdPrewrite, false, func(ts uint64) interface{} {
		return &kvrpcpb.PrewriteRequest{Mutations: []*kvrpcpb.Mutation{{Op: kvrpcpb.Op_Put, Key: []byte("a"), Value: []byte("v")}}, PrimaryLock: []byte("a"), StartVersion: ts}
	}},
	{"Commit", tikvrpc.CmdCommit, false, func(ts uint64) interface{} {
		return &kvrpcpb.CommitRequest{Keys: [][]byte{[]byte("a")}, StartVersion: ts, CommitVersion: ts + 1}
	}},
	{"PessimisticLock", tikvrpc.CmdPessimisticLock, false, func(ts uint64) interface{} {
		return &kvrpcpb.PessimisticLockRequest{Mutations: []*kvrpcpb.Mutation{{Op: kvrpcpb.Op_PessimisticLock, Key: []byte("a")}}, PrimaryLock: []byte("a"), StartVersion: ts, ForUpdateTs: ts}
	}},
	{"ResolveLock", tikvrpc.CmdResolveLock, false, func(ts uint64) interface{} { return &kvrpcpb.ResolveLockRequest{StartVersion: ts} }},
}

var readTypes = []kv.ReplicaReadType{kv.ReplicaReadLeader, kv.ReplicaReadFollower, kv.ReplicaReadMixed, kv.ReplicaReadLearner, kv.ReplicaReadPreferLeader}

const rule = "RegionRequestSender.SendReqCtx against a scripted store client: per attempt the script (rapid-drawn, length <=12, then 'ok forever' or 'one error forever') answers with one of 25 outcomes {transport error, deadline exceeded (plain/grpc), grpc canceled/unavailable, NotLeader +-hint, EpochNotMatch +-regions, RegionNotFound, ServerIsBusy +-wait estimate, StaleCommand, StoreNotMatch, DataIsNotReady, MaxTimestampNotSynced, DiskFull, RegionNotInitialized, ReadIndexNotReady, ProposalInMergingMode, RecoveryInProgress, IsWitness, KeyNotInRegion, RaftEntryTooLarge, unknown region error, ok}; dimensions: 3 read + 4 write commands x replica-read mode {leader, follower, mixed, learner, prefer-leader} x stale read (reads only) x label / store / leader-only selector options x per-store liveness x forwarding x a region with or without a learner x back-off budget x scripted read-ts validator; sleeps virtual; oracles P1 termination (<=400 attempts, <=50 attempts without any back-off in between, sleep <= budget + one cap unless the budget-excluded server-busy kind), P2 result is pointer-identical to a scripted ok response or a region error or an error, P3 no write attempt carries ReplicaRead/StaleRead, P4 a rejected read ts is never sent, P5 every attempt after the first carries the retry marker, P6 every attempt targets a peer of the region at that store's address; non-trivial = >=2 distinct error kinds before the terminal action; distinct = (command, mode, options, script)"

func TestSendReq(t *testing.T) {
	util.EnableFailpoints()
	if err := failpoint.Enable("tikvclient/fastBackoffBySkipSleep", "return"); err != nil {
		t.Fatal(err)
	}
	defer failpoint.Disable("tikvclient/fastBackoffBySkipSleep")
	defer failpoint.Disable("tikvclient/injectLiveness")
	rec := ev.For(t, "C10", rule)
	origCfg := *config.GetGlobalConfig()
	defer config.StoreGlobalConfig(&origCfg)
	rapid.Check(t, func(t *rapid.T) {
		rand.Seed(ev.Seed())
		// ---- topology: 3 voters (+ optional learner on a 4th store), labelled stores
		cluster := mocktikv.NewCluster(mocktikv.MustNewMVCCStore())
		withLearner := rapid.Bool().Draw(t, "learner")
		nStores := 3
		if withLearner {
			nStores = 4
		}
		storeIDs := cluster.AllocIDs(nStores)
		peerIDs := cluster.AllocIDs(nStores)
		regionID := cluster.AllocID()
		addrOf, storeOf := map[uint64]string{}, map[string]uint64{}
		for i, s := range storeIDs {
			addr := fmt.Sprintf("store%d", s)
			cluster.AddStore(s, addr, &metapb.StoreLabel{Key: "zone", Value: fmt.Sprintf("z%d", i%3)})
			addrOf[s], storeOf[addr] = addr, s
		}
		cluster.Bootstrap(regionID, storeIDs[:3], peerIDs[:3], peerIDs[rapid.IntRange(0, 2).Draw(t, "leader")])
		if withLearner {
			cluster.AddLearner(regionID, storeIDs[3], peerIDs[3])
		}
		forwarding := rapid.IntRange(0, 3).Draw(t, "forwarding") == 0
		cfg := origCfg
		cfg.EnableForwarding = forwarding
		config.StoreGlobalConfig(&cfg)
		// per-store liveness
		var lv []string
		for _, s := range storeIDs {
			st := rapid.SampledFrom([]string{"reachable", "reachable", "reachable", "unreachable", "unknown"}).Draw(t, "liveness")
			lv = append(lv, fmt.Sprintf("%s:%s", addrOf[s], st))
		}
		if err := failpoint.Enable("tikvclient/injectLiveness", fmt.Sprintf(`return("%s dummy:reachable")`, strings.Join(lv, " "))); err != nil {
			t.Fatalf("VERIF-INFRA: %v", err)
		}
		pdc := mocktikv.NewPDClient(cluster)
		cache := locate.NewRegionCache(locate.NewCodecPDClient(apicodec.ModeTxn, pdc))
		defer cache.Close()
		budget := rapid.SampledFrom([]int{1, 100, 2000, 20000}).Draw(t, "budget")
		bo := retry.NewBackofferWithVars(context.Background(), budget, kv.NewVariables(new(uint32)))
		loc, err := cache.LocateKey(retry.NewBackofferWithVars(context.Background(), 20000, nil), []byte("a"))
		if err != nil {
			t.Fatalf("VERIF-INFRA: locate: %v", err)
		}
		meta, leaderPeerID := cluster.GetRegion(regionID)
		var leader *metapb.Peer
		for _, p := range meta.Peers {
			if p.Id == leaderPeerID {
				leader = p
			}
		}
		// ---- script
		n := rapid.IntRange(0, 12).Draw(t, "scriptlen")
		script := make([]string, n)
		kindsSeen := map[string]bool{}
		hot := rapid.SampledFrom(errKinds).Draw(t, "hotkind")
		for i := range script {
			switch rapid.IntRange(0, 9).Draw(t, "pick") {
			case 0:
				script[i] = "ok"
			case 1, 2:
				script[i] = hot
			default:
				script[i] = rapid.SampledFrom(errKinds).Draw(t, "kind")
			}
			if script[i] != "ok" {
				kindsSeen[script[i]] = true
			}
		}
		terminal := "ok"
		if rapid.IntRange(0, 2).Draw(t, "failforever") == 0 {
			terminal = rapid.SampledFrom(errKinds).Draw(t, "terminal")
		}
		sc := &scripted{script: script, terminal: terminal, okResps: map[*tikvrpc.Response]bool{}, bo: bo, region: meta, leader: leader, addrOf: addrOf, storeOf: storeOf}
		// ---- request
		cmd := cmds[rapid.IntRange(0, len(cmds)-1).Draw(t, "cmd")]
		rt := rapid.SampledFrom(readTypes).Draw(t, "readtype")
		ts := uint64(rapid.IntRange(100, 110).Draw(t, "ts"))
		seed := uint32(rapid.IntRange(0, 5).Draw(t, "seed"))
		req := tikvrpc.NewReplicaReadRequest(cmd.typ, cmd.build(ts), rt, &seed)
		stale := false
		if cmd.read && rapid.IntRange(0, 3).Draw(t, "stale") == 0 {
			req.EnableStaleWithMixedReplicaRead()
			stale = true
			rt = kv.ReplicaReadMixed
		}
		if rapid.IntRange(0, 4).Draw(t, "shorttimeout") == 0 {
			req.MaxExecutionDurationMs = 50 // a configurable (short) read timeout
		}
		if rapid.IntRange(0, 4).Draw(t, "busythreshold") == 0 {
			req.BusyThresholdMs = 10
		}
		var opts []locate.StoreSelectorOption
		optDesc := "none"
		switch rapid.IntRange(0, 4).Draw(t, "opt") {
		case 1:
			z := fmt.Sprintf("z%d", rapid.IntRange(0, 3).Draw(t, "zone"))
			opts = append(opts, locate.WithMatchLabels([]*metapb.StoreLabel{{Key: "zone", Value: z}}))
			optDesc = "labels:" + z
		case 2:
			s := storeIDs[rapid.IntRange(0, len(storeIDs)-1).Draw(t, "matchstore")]
			opts = append(opts, locate.WithMatchStores([]uint64{s}))
			optDesc = fmt.Sprintf("stores:%d", s)
		case 3:
			opts = append(opts, locate.WithLeaderOnly())
			optDesc = "leaderOnly"
		}
		val := &validator{reject: map[uint64]bool{}}
		rejected := rapid.IntRange(0, 5).Draw(t, "rejectts") == 0
		if rejected {
			val.reject[ts] = true
		}
		sender := locate.NewRegionRequestSender(cache, sc, val)
		desc := fmt.Sprintf("%s mode=%v stale=%v opt=%s learner=%v forwarding=%v budget=%d liveness=%v script=%v then %s", cmd.name, rt, stale, optDesc, withLearner, forwarding, budget, lv, script, terminal)

		var resp *tikvrpc.Response
		var sendErr error
		func() {
			defer func() {
				if r := recover(); r != nil {
					t.Fatalf("send panicked: %v | %s", r, desc)
				}
			}()
			resp, _, _, sendErr = sender.SendReqCtx(bo, req, loc.Region, time.Second, tikvrpc.TiKV, opts...)
		}()
		fail := func(f string, a ...any) {
			var at []string
			for i, x := range sc.attempts {
				if i > 40 {
					at = append(at, "...")
					break
				}
				at = append(at, fmt.Sprintf("%s@s%d(rr=%v,sr=%v,retry=%v,sleep=%d)", x.Action, x.PeerStore, x.ReplicaRead, x.StaleRead, x.Retry, x.SleepBefore))
			}
			t.Fatalf(f+"\n  case: %s\n  attempts: %v\n  result: resp=%v err=%v totalSleep=%d", append(a, desc, at, resp != nil, sendErr, bo.GetTotalSleep())...)
		}
		// P4
		if cmd.read && rejected {
			if len(sc.attempts) != 0 || sendErr == nil {
				fail("the read ts failed validation but the request was sent (%d attempts, err=%v)", len(sc.attempts), sendErr)
			}
		} else if cmd.read && val.calls == 0 {
			fail("the read ts of a read request was never validated")
		}
		// P1
		if len(sc.attempts) > 400 {
			fail("send made %d attempts", len(sc.attempts))
		}
		run, lastSleep := 0, -1
		for _, a := range sc.attempts {
			if a.SleepBefore != lastSleep {
				run, lastSleep = 0, a.SleepBefore
			}
			run++
			if run > 50 {
				fail("more than 50 consecutive attempts without any back-off in between")
			}
		}
		serverBusy := terminal == "serverIsBusy" || terminal == "serverIsBusyWait"
		for _, s := range script {
			if strings.HasPrefix(s, "serverIsBusy") {
				serverBusy = true
			}
		}
		// the effective budget is budget x BackOffWeight (default weight 2)
		if !serverBusy && bo.GetTotalSleep() > budget*kv.DefBackOffWeight+10000 {
			fail("total back-off %dms exceeds the budget %dms (x weight %d) plus one cap", bo.GetTotalSleep(), budget, kv.DefBackOffWeight)
		}
		// P2
		if sendErr == nil {
			if resp == nil || resp.Resp == nil {
				fail("no error and no response")
			}
			re, err := resp.GetRegionError()
			if err != nil {
				fail("response without region-error accessor: %v", err)
			}
			if re == nil && !sc.okResps[resp] {
				fail("send returned a success response that no store produced (fabricated success)")
			}
			if re == nil && len(sc.attempts) > 0 && sc.attempts[len(sc.attempts)-1].Action != "ok" {
				fail("send returned success although the last attempt was answered %q", sc.attempts[len(sc.attempts)-1].Action)
			}
		}
		// P3, P5, P6
		peerStores := map[uint64]bool{}
		for _, p := range meta.Peers {
			peerStores[p.StoreId] = true
		}
		for i, a := range sc.attempts {
			if !cmd.read && (a.ReplicaRead || a.StaleRead) {
				fail("attempt #%d of write command %s carries replica_read=%v stale_read=%v", i, cmd.name, a.ReplicaRead, a.StaleRead)
			}
			if i > 0 && !a.Retry {
				fail("attempt #%d is a re-send without the retry marker", i)
			}
			if i == 0 && a.Retry {
				fail("the first attempt carries the retry marker")
			}
			if !peerStores[a.PeerStore] {
				fail("attempt #%d targets store %d which holds no peer of the region", i, a.PeerStore)
			}
			if a.Forwarded == "" && a.StoreID != a.PeerStore {
				fail("attempt #%d for the peer on store %d was sent to %s", i, a.PeerStore, a.Addr)
			}
			if a.Forwarded != "" && (a.Forwarded != addrOf[a.PeerStore] || !forwarding) {
				fail("attempt #%d forwarded to %q for the peer on store %d (forwarding=%v)", i, a.Forwarded, a.PeerStore, forwarding)
			}
		}
		outcome := "error"
		if sendErr == nil {
			if re, _ := resp.GetRegionError(); re != nil {
				outcome = "region-error"
			} else {
				outcome = "ok"
			}
		}
		var ks []string
		for k := range kindsSeen {
			ks = append(ks, k)
		}
		sort.Strings(ks)
		rec.Case(desc, len(ks) >= 2, []string{"mode=" + fmt.Sprint(rt), "outcome=" + outcome, fmt.Sprintf("read=%v", cmd.read), fmt.Sprintf("stale=%v", stale), fmt.Sprintf("forwarding=%v", forwarding)},
			map[string]any{"case": desc, "attempts": len(sc.attempts), "outcome": outcome, "total_sleep_ms": bo.GetTotalSleep()})
	})
}
