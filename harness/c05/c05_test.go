// Package c05 decides property C05: for a fixed snapshot timestamp, point get, batch get,
// forward scan and reverse scan report exactly the committed data, identically across
// repetitions, cache states, batch sizes, layouts, topology changes and leftover locks.
package c05

import (
	"bytes"
	"context"
	"fmt"
	"math"
	"runtime/debug"
	"sort"
	"strings"
	"testing"
	"time"

	"github.com/tikv/client-go/v2/config"
	tikverr "github.com/tikv/client-go/v2/error"
	"github.com/tikv/client-go/v2/kv"
	"github.com/tikv/client-go/v2/tikv"
	"github.com/tikv/client-go/v2/tikvrpc"
	"github.com/tikv/client-go/v2/txnkv/txnsnapshot"
	"github.com/tikv/client-go/v2/verif/ev"
	"github.com/tikv/client-go/v2/verif/hist"
	_ "github.com/tikv/client-go/v2/verif/quiet"
	"github.com/tikv/client-go/v2/verif/sim"
	"pgregory.net/rapid"
)

var pool = []string{"a", "b", "c", "d", "e", "f", "g", "h"}

const knownReverseFromEnd = "C05/reverse-scan-from-end-of-keyspace"

type read struct {
	Kind      string // get | batchget | iter | iterrev
	Keys      []string
	Lo, Hi    string // iter: [Lo,Hi) ; iterrev: from Hi down to Lo ; "" = unbounded
	Batch     int
	KeyOnly   bool
	Fresh     bool   // on a fresh snapshot (cold cache) instead of the shared one
	GateType  string // "" | Get | BatchGet | Scan
	GateIndex int
	GateOp    string // split | leader
	GateKey   string
}

func (r read) String() string {
	s := r.Kind
	switch r.Kind {
	case "get", "batchget":
		s += "(" + strings.Join(r.Keys, ",") + ")"
	default:
		s += fmt.Sprintf("(%q,%q,batch=%d,keyonly=%v)", r.Lo, r.Hi, r.Batch, r.KeyOnly)
	}
	if r.Fresh {
		s += "/fresh"
	}
	if r.GateType != "" {
		s += fmt.Sprintf("[%s(%s)@%s#%d]", r.GateOp, r.GateKey, r.GateType, r.GateIndex)
	}
	return s
}

type tcase struct {
	backend   sim.Backend
	nStores   int
	keys      []string
	splits    []string
	writers   []hist.Writer
	expire    bool
	asyncBG   bool
	respLevel bool // locks are reported at response level (TiKV's form for in-memory locks)
	tsChoice  int  // index into the timestamp marks
	tsDelta   int  // -1, 0, +1
	maxTS     bool
	ts2Choice int
	reads     []read
}

func (c *tcase) String() string {
	var ws []string
	for _, w := range c.writers {
		ws = append(ws, w.String())
	}
	var rs []string
	for _, r := range c.reads {
		rs = append(rs, r.String())
	}
	return fmt.Sprintf("backend=%v stores=%d splits=%q expire=%v asyncBatchGet=%v respLevelLocks=%v ts=mark[%d]%+d max=%v ts2=mark[%d]\n  writers:\n    %s\n  reads: %s",
		c.backend, c.nStores, c.splits, c.expire, c.asyncBG, c.respLevel, c.tsChoice, c.tsDelta, c.maxTS, c.ts2Choice, strings.Join(ws, "\n    "), strings.Join(rs, " ; "))
}

func gen(t *rapid.T, backend sim.Backend, rec *ev.Recorder) *tcase {
	c := &tcase{backend: backend, nStores: 1}
	if backend == sim.Mock {
		c.nStores = rapid.SampledFrom([]int{1, 3}).Draw(t, "stores")
	}
	nKeys := rapid.IntRange(4, 8).Draw(t, "nkeys")
	c.keys = append([]string{}, rapid.Permutation(pool).Draw(t, "keys")[:nKeys]...)
	sort.Strings(c.keys)
	key := func(name string) string { return rapid.SampledFrom(c.keys).Draw(t, name) }
	for i := rapid.IntRange(0, 4).Draw(t, "nsplits"); i > 0; i-- {
		k := rapid.SampledFrom(pool).Draw(t, "splitkey")
		if rapid.Bool().Draw(t, "offkey") {
			k += "0"
		}
		c.splits = append(c.splits, k)
	}
	nW := rapid.IntRange(3, 7).Draw(t, "nwriters")
	c.writers = hist.Gen(t, backend, c.keys, nW, 2)
	c.expire = rapid.IntRange(0, 3).Draw(t, "expire") != 0
	c.asyncBG = rapid.Bool().Draw(t, "asyncbatchget")
	c.respLevel = rapid.Bool().Draw(t, "resplevellocks")
	c.tsChoice = rapid.IntRange(0, nW).Draw(t, "ts")
	c.tsDelta = rapid.IntRange(-1, 1).Draw(t, "tsdelta")
	c.maxTS = c.expire && rapid.IntRange(0, 7).Draw(t, "maxts") == 0
	c.ts2Choice = rapid.IntRange(0, nW).Draw(t, "ts2")
	for i := rapid.IntRange(3, 8).Draw(t, "nreads"); i > 0; i-- {
		r := read{Kind: rapid.SampledFrom([]string{"get", "batchget", "iter", "iterrev", "iter", "iterrev"}).Draw(t, "kind")}
		if backend == sim.Uni && r.Kind == "iterrev" {
			// unistore's ReverseScan sets the read ts after creating its iterator and returns versions newer than
			// the snapshot (a defect of that store): reverse scans are examined on mocktikv only
			r.Kind = "iter"
		}
		switch r.Kind {
		case "get":
			r.Keys = []string{key("k")}
		case "batchget":
			for j := rapid.IntRange(1, 6).Draw(t, "n"); j > 0; j-- {
				r.Keys = append(r.Keys, key("k"))
			}
		default:
			lo, hi := key("lo"), key("hi")
			if lo > hi {
				lo, hi = hi, lo
			}
			switch rapid.IntRange(0, 4).Draw(t, "bounds") {
			case 0:
				hi = ""
			case 1:
				hi += "\x00"
			case 2:
				lo = ""
			}
			if backend == sim.Uni && hi == "" {
				hi = "z" // unistore keeps its own meta data at the end of the key space
			}
			r.Lo, r.Hi = lo, hi
			r.Batch = rapid.IntRange(2, 8).Draw(t, "batch")
			r.KeyOnly = rapid.IntRange(0, 3).Draw(t, "keyonly") == 0
		}
		r.Fresh = rapid.IntRange(0, 2).Draw(t, "fresh") == 0
		if rapid.IntRange(0, 2).Draw(t, "gate") == 0 {
			r.GateType = map[string]string{"get": "Get", "batchget": "BatchGet", "iter": "Scan", "iterrev": "Scan"}[r.Kind]
			r.GateIndex = rapid.IntRange(0, 2).Draw(t, "gateidx")
			r.GateOp = rapid.SampledFrom([]string{"split", "split", "leader"}).Draw(t, "gateop")
			r.GateKey = key("gatekey") + rapid.SampledFrom([]string{"", "1"}).Draw(t, "gatesfx")
		}
		c.reads = append(c.reads, r)
	}
	// known finding: a reverse scan without upper bound silently covers only the first region; such scans stay in
	// the domain only while the key space is a single region for the whole case
	multi := len(c.splits) > 0
	for _, r := range c.reads {
		if r.GateOp == "split" {
			multi = true
		}
	}
	for i := range c.reads {
		if r := &c.reads[i]; r.Kind == "iterrev" && r.Hi == "" && multi {
			rec.Excluding(knownReverseFromEnd)
			r.Hi = "z"
		}
	}
	return c
}

type result struct {
	pairs [][2]string
	err   error
}

func (r result) String() string {
	if r.err != nil {
		return "error: " + r.err.Error()
	}
	var s []string
	for _, p := range r.pairs {
		s = append(s, p[0]+"="+p[1])
	}
	return "[" + strings.Join(s, " ") + "]"
}

func doRead(snap *txnsnapshot.KVSnapshot, r read) (res result) {
	ctx := context.Background()
	switch r.Kind {
	case "get":
		v, err := snap.Get(ctx, []byte(r.Keys[0]))
		if tikverr.IsErrNotFound(err) {
			return result{}
		}
		if err != nil {
			return result{err: err}
		}
		return result{pairs: [][2]string{{r.Keys[0], string(v.Value)}}}
	case "batchget":
		var ks [][]byte
		for _, k := range r.Keys {
			ks = append(ks, []byte(k))
		}
		m, err := snap.BatchGet(ctx, ks)
		if err != nil {
			return result{err: err}
		}
		for k, v := range m {
			res.pairs = append(res.pairs, [2]string{k, string(v.Value)})
		}
		sort.Slice(res.pairs, func(i, j int) bool { return res.pairs[i][0] < res.pairs[j][0] })
		return res
	}
	snap.SetScanBatchSize(r.Batch)
	snap.SetKeyOnly(r.KeyOnly)
	defer snap.SetKeyOnly(false)
	var lo, hi []byte
	if r.Lo != "" {
		lo = []byte(r.Lo)
	}
	if r.Hi != "" {
		hi = []byte(r.Hi)
	}
	type iterator interface {
		Valid() bool
		Key() []byte
		Value() []byte
		Next() error
		Close()
	}
	var it iterator
	var err error
	if r.Kind == "iter" {
		it, err = snap.Iter(lo, hi)
	} else {
		it, err = snap.IterReverse(hi, lo)
	}
	if err != nil {
		return result{err: err}
	}
	defer it.Close()
	for it.Valid() {
		res.pairs = append(res.pairs, [2]string{string(it.Key()), string(it.Value())})
		if err := it.Next(); err != nil {
			return result{err: err}
		}
		if len(res.pairs) > 1000 {
			return result{err: fmt.Errorf("scan does not terminate")}
		}
	}
	return res
}

// expected computes the answer from the final truth.
func expected(truth *sim.Truth, keys []string, ts uint64, r read) [][2]string {
	var out [][2]string
	val := func(k string) (string, bool) {
		v, ok := truth.ValueAt(k, ts)
		if r.KeyOnly && (r.Kind == "iter" || r.Kind == "iterrev") {
			return "", ok
		}
		return string(v), ok
	}
	switch r.Kind {
	case "get", "batchget":
		seen := map[string]bool{}
		for _, k := range r.Keys {
			if seen[k] {
				continue
			}
			seen[k] = true
			if v, ok := val(k); ok {
				out = append(out, [2]string{k, v})
			}
		}
		sort.Slice(out, func(i, j int) bool { return out[i][0] < out[j][0] })
	case "iter", "iterrev":
		for _, k := range keys {
			if k < r.Lo || (r.Hi != "" && k >= r.Hi) {
				continue
			}
			if v, ok := val(k); ok {
				out = append(out, [2]string{k, v})
			}
		}
		if r.Kind == "iterrev" {
			for i, j := 0, len(out)-1; i < j; i, j = i+1, j-1 {
				out[i], out[j] = out[j], out[i]
			}
		}
	}
	return out
}

func samePairs(a, b [][2]string) bool {
	if len(a) != len(b) {
		return false
	}
	for i := range a {
		if a[i] != b[i] {
			return false
		}
	}
	return true
}

type lockSeen struct {
	key   string
	start uint64
	kind  string
}

type outcome struct {
	infra, hung string
	void        string // the store implementation panicked: the case says nothing
	viol        []string
	classes     []string
	nontrivial  bool
	log         []string
	trace       string
	truth       *sim.Truth
}

func run(c *tcase) (o outcome) {
	cfg := *config.GetGlobalConfig()
	orig := cfg
	cfg.EnableAsyncBatchGet = c.asyncBG
	config.StoreGlobalConfig(&cfg)
	defer config.StoreGlobalConfig(&orig)

	cl, err := sim.NewCluster(c.backend, c.nStores, 2+len(c.writers))
	if err != nil {
		o.infra = err.Error()
		return
	}
	defer cl.Close()
	defer func() { o.void = cl.StorePanic() }()
	for _, k := range c.splits {
		cl.SplitAt(k)
	}
	cl.RespLevelLocks = c.respLevel
	var failMsg string
	w := sim.NewWorld(cl, c.keys, func(f string, a ...any) {
		if failMsg == "" {
			failMsg = fmt.Sprintf(f, a...)
		}
	})
	defer w.Release()
	w.Auditor = cl.Clients[1]
	done := make(chan struct{})
	go func() {
		defer close(done)
		defer func() {
			if r := recover(); r != nil && failMsg == "" {
				failMsg = fmt.Sprintf("panic: %v\n%s", r, debug.Stack())
			}
		}()
		marks, err := hist.Build(w, c.writers, 0)
		if err != nil {
			failMsg = "tso: " + err.Error()
			return
		}
		cl.Drain(2*time.Millisecond, 2*time.Second)
		reader := cl.Clients[0]
		probe := tikv.StoreProbe{KVStore: cl.Clients[1].Store}
		var locks []lockSeen
		if ls, err := probe.ScanLocks(context.Background(), nil, []byte{0xff, 0xff}, math.MaxUint64); err == nil {
			for _, l := range ls {
				locks = append(locks, lockSeen{string(l.Key), l.TxnID, l.LockType.String()})
			}
		}
		if c.expire {
			cl.Expire()
		}
		tsOf := func(choice, delta int) uint64 { return uint64(int64(marks[choice%len(marks)]) + int64(delta)) }
		ts := tsOf(c.tsChoice, c.tsDelta)
		if c.maxTS {
			ts = math.MaxUint64
		}
		ts2 := tsOf(c.ts2Choice, 0)
		shared := reader.Store.GetSnapshot(ts)
		type obs struct {
			r   read
			ts  uint64
			res []result
		}
		var observed []obs
		regionsTouched := 0
		exec := func(snap *txnsnapshot.KVSnapshot, r read, at uint64) {
			ob := obs{r: r, ts: at}
			for rep := 0; rep < 2; rep++ {
				var plan []*sim.Fault
				if r.GateType != "" && rep == 0 {
					typ := map[string]tikvrpc.CmdType{"Get": tikvrpc.CmdGet, "BatchGet": tikvrpc.CmdBatchGet, "Scan": tikvrpc.CmdScan}[r.GateType]
					plan = []*sim.Fault{{Type: typ, Index: r.GateIndex, Action: "gateBefore", Gate: func() {
						if r.GateOp == "split" {
							cl.SplitAt(r.GateKey)
						} else {
							cl.TransferLeader(strings.TrimSuffix(r.GateKey, "1"), r.GateIndex+1)
						}
					}}}
				}
				before := cl.Trace.Len()
				reader.Net.Arm(cl.NextCall(), 0, plan)
				res := doRead(snap, r)
				reader.Net.Disarm()
				regs := map[uint64]bool{}
				for _, e := range cl.Trace.Since(before) {
					regs[e.RegionID] = true
				}
				if len(regs) > regionsTouched {
					regionsTouched = len(regs)
				}
				w.Log = append(w.Log, fmt.Sprintf("read@%d #%d %s -> %s", at, rep, r, res))
				ob.res = append(ob.res, res)
			}
			observed = append(observed, ob)
		}
		for _, r := range c.reads {
			snap := shared
			if r.Fresh {
				snap = reader.Store.GetSnapshot(ts)
			}
			exec(snap, r, ts)
		}
		// S5: move the shared snapshot to another ts: no answer may leak from the cache of the first one
		shared.SetSnapshotTS(ts2)
		for _, r := range c.reads {
			r.GateType, r.Fresh = "", false
			exec(shared, r, ts2)
		}
		// final truth
		truth, err := w.Finish()
		if err != nil {
			o.infra = "recovery: " + err.Error()
			return
		}
		o.truth = truth
		blocking := func(r read, at uint64) bool {
			if c.expire {
				return false
			}
			for _, l := range locks {
				if l.kind == "PessimisticLock" || (at != math.MaxUint64 && l.start > at) {
					continue
				}
				switch r.Kind {
				case "get", "batchget":
					for _, k := range r.Keys {
						if k == l.key {
							return true
						}
					}
				default:
					if l.key >= r.Lo && (r.Hi == "" || l.key < r.Hi) {
						return true
					}
				}
			}
			return false
		}
		lockMet := false
		for _, ob := range observed {
			want := expected(truth, c.keys, ob.ts, ob.r)
			for rep, res := range ob.res {
				if res.err != nil {
					if !blocking(ob.r, ob.ts) {
						o.viol = append(o.viol, fmt.Sprintf("%s at ts %d (repetition %d) failed with %q although no lock of a live, unexpired transaction at or below the snapshot is in its way", ob.r, ob.ts, rep, res.err))
					}
					continue
				}
				got := res.pairs
				if ob.r.KeyOnly && (ob.r.Kind == "iter" || ob.r.Kind == "iterrev") {
					// a key-only scan promises the keys; whether the store still ships values is its own business
					got = nil
					for _, p := range res.pairs {
						got = append(got, [2]string{p[0], ""})
					}
				}
				if !samePairs(got, want) {
					o.viol = append(o.viol, fmt.Sprintf("%s at ts %d (repetition %d) returned %s, the data committed at or before that ts is %s; versions: %s", ob.r, ob.ts, rep, res, result{pairs: want}, truth.Describe(c.keys)))
				}
			}
		}
		for _, l := range locks {
			if l.start <= ts {
				lockMet = true
			}
		}
		o.nontrivial = (lockMet && regionsTouched >= 2) || strings.Contains(fmt.Sprint(c.reads), "@")
		o.classes = append(o.classes, fmt.Sprintf("leftover-locks=%v", len(locks) > 0), fmt.Sprintf("regions>=2=%v", regionsTouched >= 2), fmt.Sprintf("expire=%v", c.expire))
		for _, l := range locks {
			o.classes = append(o.classes, "lock="+l.kind)
		}
	}()
	select {
	case <-done:
	case <-time.After(90 * time.Second):
		es := cl.Trace.Since(0)
		if len(es) > 40 {
			es = es[len(es)-40:]
		}
		var tail []string
		for _, e := range es {
			tail = append(tail, sim.DescribeEntry(e))
		}
		o.hung = fmt.Sprintf("case did not finish within 90 s; log:\n    %s\n  last RPCs:\n    %s\n  goroutines:\n%s", strings.Join(w.Log, "\n    "), strings.Join(tail, "\n    "), sim.GoroutineDump())
		return
	}
	o.log = w.Log
	if r := cl.Runaway(); r != "" {
		o.viol = append(o.viol, "a read or the recovery behind it does not terminate: "+r)
		o.infra = ""
		return
	}
	o.trace = cl.Trace.Describe()
	if failMsg != "" {
		o.viol = append(o.viol, "actor: "+failMsg)
	}
	return
}

const rule = "an MVCC history is built by 3-7 writer transactions on their own simulated clients (optimistic | pessimistic, on unistore also async commit / 1PC; 1-3 sets / deletes each over 4-8 keys in 1-5 regions, 1 or 3 stores) that end by commit, rollback, client death with the transaction open, or a client crash before / after a drawn request of Commit (leaving prewrite locks, pessimistic locks, committed primaries with unresolved secondaries, rolled-back primaries with orphans), a timestamp mark is taken after each; the reader picks a mark +-1 (or max uint64) as snapshot ts - so later writers' locks are 'after the snapshot' - and runs 3-8 reads twice each: get, batch-get (duplicates, any order, sync | async path, locks reported per pair | at response level as TiKV does for in-memory locks), scan and reverse scan (bounds on / off keys and region borders, unbounded, batch size 2-8, key-only), on a shared (warm) or fresh (cold) snapshot, optionally with a region split or leader transfer fired at the i-th RPC of the read; then the shared snapshot is moved to a second ts (SetSnapshotTS) and all reads repeat; locks are expired before reading in 3 of 4 cases; oracle: after recovery the raw MVCC records give truth(ts); every read must equal truth(ts) restricted to its request (exact pairs, exact order, in bounds), errors are allowed only when locks were left unexpired and a non-pessimistic lock with start ts <= snapshot lies in the request; non-trivial = a lock at or below the snapshot was left and a read touched >= 2 regions, or a topology change fired during a read; distinct = case text"

func snapshots(t *testing.T, backend sim.Backend) {
	rec := ev.For(t, "C05", rule)
	rapid.Check(t, func(t *rapid.T) {
		c := gen(t, backend, rec)
		o := run(c)
		if o.void != "" {
			t.Skip("void case: " + o.void) // substrate defect (13.6)
		}
		if o.hung != "" || o.infra != "" {
			t.Fatalf("VERIF-INFRA: %s %s\n  case: %s", o.hung, o.infra, c)
		}
		if len(o.viol) > 0 {
			t.Fatalf("snapshot reads disagree with the committed data:\n  %s\n  case: %s\n  log:\n    %s\n  truth: %s\n  rpc trace:\n    %s",
				strings.Join(o.viol, "\n  "), c, strings.Join(o.log, "\n    "), o.truth.Describe(c.keys), strings.ReplaceAll(o.trace, "\n", "\n    "))
		}
		rec.Case(c.String(), o.nontrivial, append(o.classes, "backend="+backend.String()), map[string]any{"case": c.String()})
	})
}

func TestSnapshotReads(t *testing.T)    { snapshots(t, sim.Mock) }
func TestSnapshotReadsUni(t *testing.T) { snapshots(t, sim.Uni) }

// TestKnownFindings replays the regression scenario of each listed known finding.
func TestKnownFindings(t *testing.T) {
	rec := ev.For(t, "C05", "fixed regression scenarios of the listed known findings")
	// C05/reverse-scan-from-end-of-keyspace: three regions, keys a d g committed; IterReverse(nil, nil)
	cl, err := sim.NewCluster(sim.Mock, 1, 2)
	if err != nil {
		t.Fatalf("VERIF-INFRA: %v", err)
	}
	defer cl.Close()
	cl.SplitAt("c")
	cl.SplitAt("f")
	txn, _ := cl.Clients[0].Store.Begin()
	for _, k := range []string{"a", "d", "g"} {
		_ = txn.Set([]byte(k), []byte("v"+k))
	}
	if err := txn.Commit(context.Background()); err != nil {
		t.Fatalf("VERIF-INFRA: %v", err)
	}
	ts, _ := cl.Clients[1].Store.CurrentTimestamp("global")
	res := doRead(cl.Clients[1].Store.GetSnapshot(ts), read{Kind: "iterrev", Batch: 4})
	want := [][2]string{{"g", "vg"}, {"d", "vd"}, {"a", "va"}}
	manifested := res.err != nil || !samePairs(res.pairs, want)
	if manifested && !rec.IsKnown(knownReverseFromEnd) {
		t.Fatalf("reverse scan without upper bound over 3 regions returned %s, want %s", res, result{pairs: want})
	}
	rec.Case("known/"+knownReverseFromEnd, manifested, []string{fmt.Sprintf("known-finding-manifested=%v", manifested)}, map[string]any{"scenario": "regions split at c,f; keys a,d,g; IterReverse(nil,nil)", "returned": res.String(), "manifested": manifested})
	_ = bytes.Equal
	_ = kv.LockNoWait
}
