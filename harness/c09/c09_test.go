// Package c09 decides property C09: region lookups contain their keys, multi-region
// lookups cover ranges without gaps, older descriptions are never installed over
// newer ones, and requests converge to the current leader once topology changes stop.
package c09

import (
	"bytes"
	"context"
	"errors"
	"fmt"
	"runtime/debug"
	"sort"
	"strings"
	"testing"
	"time"

	"github.com/golang/protobuf/proto"
	"github.com/pingcap/failpoint"
	"github.com/pingcap/kvproto/pkg/kvrpcpb"
	"github.com/pingcap/kvproto/pkg/metapb"
	"github.com/tikv/client-go/v2/config/retry"
	"github.com/tikv/client-go/v2/internal/locate"
	"github.com/tikv/client-go/v2/internal/mockstore/mocktikv"
	"github.com/tikv/client-go/v2/kv"
	"github.com/tikv/client-go/v2/oracle"
	"github.com/tikv/client-go/v2/tikv"
	"github.com/tikv/client-go/v2/tikvrpc"
	"github.com/tikv/client-go/v2/util"
	"github.com/tikv/client-go/v2/verif/ev"
	_ "github.com/tikv/client-go/v2/verif/quiet"
	pd "github.com/tikv/pd/client"
	"github.com/tikv/pd/client/clients/router"
	"github.com/tikv/pd/client/opt"
	"github.com/tikv/pd/client/pkg/caller"
	"pgregory.net/rapid"
)

// ---------------------------------------------------------------- PD shim with stale answers

type snapshot struct {
	regions []*router.Region // sorted by (encoded) start key
}

type pdShim struct {
	pd.Client
	inner pd.Client
	hist  []snapshot
	stale int // answer region queries from hist[len-1-stale] (0 = ground truth)
	used  int // number of answers served from a stale snapshot
}

func (p *pdShim) WithCallerComponent(caller.Component) pd.Client { return p }

func (p *pdShim) snap() *snapshot {
	if p.stale <= 0 || len(p.hist) < 2 {
		return nil
	}
	i := len(p.hist) - 1 - p.stale
	if i < 0 {
		i = 0
	}
	p.used++
	return &p.hist[i]
}

func cloneRegion(r *router.Region) *router.Region {
	c := &router.Region{Meta: proto.Clone(r.Meta).(*metapb.Region)}
	if r.Leader != nil {
		c.Leader = proto.Clone(r.Leader).(*metapb.Peer)
	}
	return c
}

func contains(r *router.Region, key []byte) bool {
	return bytes.Compare(r.Meta.StartKey, key) <= 0 && (len(r.Meta.EndKey) == 0 || bytes.Compare(key, r.Meta.EndKey) < 0)
}

func (p *pdShim) GetRegion(ctx context.Context, key []byte, opts ...opt.GetRegionOption) (*router.Region, error) {
	if s := p.snap(); s != nil {
		for _, r := range s.regions {
			if contains(r, key) {
				return cloneRegion(r), nil
			}
		}
		return nil, nil
	}
	return p.inner.GetRegion(ctx, key, opts...)
}

func (p *pdShim) GetPrevRegion(ctx context.Context, key []byte, opts ...opt.GetRegionOption) (*router.Region, error) {
	if s := p.snap(); s != nil {
		for i, r := range s.regions {
			if contains(r, key) {
				if i == 0 {
					return &router.Region{}, nil
				}
				return cloneRegion(s.regions[i-1]), nil
			}
		}
		return nil, nil
	}
	return p.inner.GetPrevRegion(ctx, key, opts...)
}

func (p *pdShim) GetRegionByID(ctx context.Context, id uint64, opts ...opt.GetRegionOption) (*router.Region, error) {
	if s := p.snap(); s != nil {
		for _, r := range s.regions {
			if r.Meta.Id == id {
				return cloneRegion(r), nil
			}
		}
		return &router.Region{}, nil
	}
	return p.inner.GetRegionByID(ctx, id, opts...)
}

func scanSnap(s *snapshot, start, end []byte, limit int) []*router.Region {
	var out []*router.Region
	for _, r := range s.regions {
		if len(r.Meta.EndKey) != 0 && bytes.Compare(r.Meta.EndKey, start) <= 0 {
			continue
		}
		if len(end) > 0 && bytes.Compare(r.Meta.StartKey, end) >= 0 {
			break
		}
		out = append(out, cloneRegion(r))
		if limit > 0 && len(out) >= limit {
			break
		}
	}
	return out
}

func (p *pdShim) ScanRegions(ctx context.Context, start, end []byte, limit int, opts ...opt.GetRegionOption) ([]*router.Region, error) {
	if s := p.snap(); s != nil {
		return scanSnap(s, start, end, limit), nil
	}
	return p.inner.ScanRegions(ctx, start, end, limit, opts...)
}

func (p *pdShim) BatchScanRegions(ctx context.Context, ranges []router.KeyRange, limit int, opts ...opt.GetRegionOption) ([]*router.Region, error) {
	if s := p.snap(); s != nil {
		var out []*router.Region
		var last *router.Region
		for _, kr := range ranges {
			if last != nil {
				if len(last.Meta.EndKey) == 0 || (len(kr.EndKey) > 0 && bytes.Compare(last.Meta.EndKey, kr.EndKey) >= 0) {
					continue
				}
				if bytes.Compare(last.Meta.EndKey, kr.StartKey) > 0 {
					kr.StartKey = last.Meta.EndKey
				}
			}
			rs := scanSnap(s, kr.StartKey, kr.EndKey, limit-len(out))
			if len(rs) > 0 {
				last = rs[len(rs)-1]
			}
			out = append(out, rs...)
			if limit > 0 && len(out) >= limit {
				break
			}
		}
		return out, nil
	}
	return p.inner.BatchScanRegions(ctx, ranges, limit, opts...)
}

func (p *pdShim) GetStore(ctx context.Context, id uint64, opts ...opt.GetStoreOption) (*metapb.Store, error) {
	return p.inner.GetStore(ctx, id, opts...)
}
func (p *pdShim) GetAllStores(ctx context.Context, opts ...opt.GetStoreOption) ([]*metapb.Store, error) {
	return p.inner.GetAllStores(ctx, opts...)
}
func (p *pdShim) GetClusterID(ctx context.Context) uint64 { return p.inner.GetClusterID(ctx) }
func (p *pdShim) Close()                                  {}

// ---------------------------------------------------------------- world

var keyAlphabet = []string{"a", "b", "c", "d", "e", "f", "g", "h"}

type desc struct {
	id, ver, conf uint64
}

type world struct {
	t        *rapid.T
	cluster  *mocktikv.Cluster
	client   *mocktikv.RPCClient
	shim     *pdShim
	cache    *locate.RegionCache
	store    *tikv.KVStore
	firstGen map[desc]int
	ops      []string
	stores   []uint64
	stopped  map[uint64]bool
	// coverage facts
	topoChanged, multiOverChanged, warmMulti, unboundedCachedLast bool
	changedBorders                                                map[string]bool
}

func (w *world) fail(f string, a ...any) {
	ops := w.ops
	if len(ops) > 80 {
		ops = ops[len(ops)-80:]
	}
	w.t.Fatalf(f+"\n  ops: %s", append(a, strings.Join(ops, " ; "))...)
}

func (w *world) bo() *retry.Backoffer {
	return retry.NewBackofferWithVars(context.Background(), 20000, nil)
}

func dec(k []byte) string {
	if len(k) == 0 {
		return ""
	}
	return string(mocktikv.MvccKey(k).Raw())
}

// truth returns the current ground-truth regions sorted by start key (raw keys).
type tregion struct {
	id, ver, conf uint64
	start, end    string
	leaderStore   uint64
	leaderPeer    uint64
	peers         []*metapb.Peer
	ref           *mocktikv.Region
}

func (w *world) truth() []tregion {
	var out []tregion
	for _, r := range w.cluster.GetAllRegions() {
		t := tregion{id: r.Meta.Id, ver: r.Meta.RegionEpoch.GetVersion(), conf: r.Meta.RegionEpoch.GetConfVer(), start: dec(r.Meta.StartKey), end: dec(r.Meta.EndKey), peers: r.Meta.Peers, ref: r}
		_, leader := w.cluster.GetRegion(r.Meta.Id)
		t.leaderPeer = leader
		for _, p := range r.Meta.Peers {
			if p.Id == leader {
				t.leaderStore = p.StoreId
			}
		}
		out = append(out, t)
	}
	sort.Slice(out, func(i, j int) bool { return out[i].start < out[j].start })
	return out
}

func (w *world) record() {
	var s snapshot
	regs := w.cluster.ScanRegions(nil, nil, 0)
	for _, r := range regs {
		s.regions = append(s.regions, cloneRegion(r))
		d := desc{r.Meta.Id, r.Meta.RegionEpoch.GetVersion(), r.Meta.RegionEpoch.GetConfVer()}
		if _, ok := w.firstGen[d]; !ok {
			w.firstGen[d] = len(w.shim.hist)
		}
	}
	w.shim.hist = append(w.shim.hist, s)
}

func (w *world) gen(loc *locate.KeyLocation) (int, bool) {
	g, ok := w.firstGen[desc{loc.Region.GetID(), loc.Region.GetVer(), loc.Region.GetConfVer()}]
	return g, ok
}

func locStr(l *locate.KeyLocation) string {
	if l == nil {
		return "<nil>"
	}
	return fmt.Sprintf("r%d(v%d,c%d)[%s,%s)", l.Region.GetID(), l.Region.GetVer(), l.Region.GetConfVer(), l.StartKey, l.EndKey)
}

func locsStr(ls []*locate.KeyLocation) string {
	var s []string
	for _, l := range ls {
		s = append(s, locStr(l))
	}
	return strings.Join(s, " ")
}

// knownDesc: every description a lookup returns must be one that existed at some time (no invented regions).
func (w *world) knownDesc(what string, l *locate.KeyLocation) {
	if _, ok := w.gen(l); !ok {
		w.fail("%s returned %s which never existed in the topology history", what, locStr(l))
	}
}

// checkCover: locations taken in order cover [start,end) without a gap (geometric check; stale-but-contiguous is fine).
func (w *world) checkCover(what string, locs []*locate.KeyLocation, start, end string) {
	if len(locs) == 0 {
		w.fail("%s returned no location for [%s,%s)", what, start, end)
	}
	cur := start
	for i, l := range locs {
		w.knownDesc(what, l)
		if string(l.StartKey) > cur {
			w.fail("%s leaves a gap before location #%d: need coverage from %q, got %s", what, i, cur, locsStr(locs))
		}
		if len(l.EndKey) == 0 {
			return // reaches the end of the key space
		}
		if string(l.EndKey) > cur {
			cur = string(l.EndKey)
		}
		if end != "" && cur >= end {
			return
		}
	}
	w.fail("%s does not cover [%s,%s): coverage stops at %q; got %s", what, start, end, cur, locsStr(locs))
}

func (w *world) drawKey(name string) string {
	k := rapid.SampledFrom(keyAlphabet).Draw(w.t, name)
	if rapid.IntRange(0, 4).Draw(w.t, name+"ext") == 0 {
		k += rapid.SampledFrom([]string{"\x00", "5", "z"}).Draw(w.t, name+"suffix")
	}
	return k
}

// probe state for the non-regression rule
func (w *world) probeAll() map[string]*locate.KeyLocation {
	m := map[string]*locate.KeyLocation{}
	for _, k := range append([]string{"\x01"}, keyAlphabet...) {
		m[k] = w.cache.TryLocateKey([]byte(k))
		m[k+"5"] = w.cache.TryLocateKey([]byte(k + "5"))
	}
	return m
}

func (w *world) checkNoRegression(op string, before, after map[string]*locate.KeyLocation) {
	for k, b := range before {
		a := after[k]
		if a == nil || b == nil {
			continue
		}
		if !bytes.HasPrefix([]byte(k), nil) {
			continue
		}
		if !a.Contains([]byte(k)) {
			w.fail("after %s the cache maps key %q to %s which does not contain it", op, k, locStr(a))
		}
		if a.Region.GetID() == b.Region.GetID() {
			if a.Region.GetVer() < b.Region.GetVer() || a.Region.GetConfVer() < b.Region.GetConfVer() {
				w.fail("%s installed an older description of the same region over a newer one for key %q: %s -> %s", op, k, locStr(b), locStr(a))
			}
			continue
		}
		// a different region now serves k: it must not be older than the cached region that started inside its range
		ga, oka := w.gen(a)
		gb, okb := w.gen(b)
		if oka && okb && ga < gb && string(b.StartKey) >= string(a.StartKey) && (len(a.EndKey) == 0 || string(b.StartKey) < string(a.EndKey)) {
			w.fail("%s installed %s (topology generation %d) over the newer cached %s (generation %d) which starts inside its range (key %q)", op, locStr(a), ga, locStr(b), gb, k)
		}
	}
}

func (w *world) classifyMulti(start, end string) {
	// a multi-region lookup over a changed border with a partly warm cache
	warm, cold := 0, 0
	last := w.cache.TryLocateKey([]byte(start))
	if last != nil {
		warm++
	} else {
		cold++
	}
	for _, k := range keyAlphabet {
		if k > start && (end == "" || k < end) {
			if l := w.cache.TryLocateKey([]byte(k)); l != nil {
				warm++
				if len(l.EndKey) == 0 {
					w.unboundedCachedLast = true
				}
			} else {
				cold++
			}
			if w.changedBorders[k] {
				w.multiOverChanged = true
			}
		}
	}
	if warm > 0 && cold > 0 {
		w.warmMulti = true
	}
}

func setup(t *rapid.T) *world {
	client, cluster, pdc, err := mocktikv.NewTiKVAndPDClient("", nil)
	if err != nil {
		t.Fatalf("VERIF-INFRA: %v", err)
	}
	storeIDs, _, _, _ := mocktikv.BootstrapWithMultiStores(cluster, 3)
	shim := &pdShim{Client: pdc, inner: pdc}
	// assemble exactly like a real store does: codec client over the RPC client, codec PD client over PD
	store, err := tikv.NewTestTiKVStore(client, shim, nil, nil, 0)
	if err != nil {
		t.Fatalf("VERIF-INFRA: %v", err)
	}
	cache := store.GetRegionCache()
	w := &world{t: t, cluster: cluster, client: client, store: store, shim: shim, cache: cache, firstGen: map[desc]int{}, stores: storeIDs, stopped: map[uint64]bool{}, changedBorders: map[string]bool{}}
	w.record()
	return w
}

func (w *world) close() {
	w.store.Close()
}

func (w *world) regionOf(tr []tregion, key string) *tregion {
	for i := range tr {
		if tr[i].start <= key && (tr[i].end == "" || key < tr[i].end) {
			return &tr[i]
		}
	}
	return nil
}

const rule = "rapid state machine over a mocktikv Cluster (3 stores x 3 peers, ground truth; epochs kept TiKV-realistic: split -> both halves parent.ver+1, merge -> max+1) and one RegionCache behind a PD shim that can answer from any earlier topology snapshot (stale PD): topology ops split/merge/transfer-leader/add-peer/remove-peer/stop-store/start-store interleaved with every lookup API (LocateKey, LocateEndKey, TryLocateKey, LocateRegionByID, LocateKeyRange, BatchLocateKeyRanges with/without options, GroupKeysByRegion, ListRegionIDsInKeyRange, LoadRegionsInKeyRange, BatchLoadRegionsFromKey), invalidation and real Get sends through RegionRequestSender; oracles: containment (by key / by end key), gap-free in-order coverage incl. the last region and unbounded ends (geometric), key grouping into exactly one containing region, no older description installed over a newer one (same region: epoch; other region starting inside its range: topology generation) checked on 17 probe keys around every operation, every returned description existed in the topology history, convergence of a Get on every probe key within 12 relocate rounds once changes stop, no 'key not in region' panic; non-trivial = >=1 split or merge and a multi-region lookup that spans a changed border with a partly warm cache; distinct = op-kind sequence"

func TestRegionCache(t *testing.T) {
	util.EnableFailpoints()
	for _, fp := range [][2]string{{"tikvclient/fastBackoffBySkipSleep", "return"}, {"tikvclient/injectLiveness", `return("reachable")`}} {
		if err := failpoint.Enable(fp[0], fp[1]); err != nil {
			t.Fatal(err)
		}
		defer failpoint.Disable(fp[0])
	}
	rec := ev.For(t, "C09", rule)
	rapid.Check(t, func(t *rapid.T) {
		w := setup(t)
		defer w.close()
		defer func() {
			if r := recover(); r != nil {
				if s := fmt.Sprint(r); strings.Contains(s, "not in region") || strings.Contains(s, "runtime error") {
					w.fail("panic: %v\n%s", r, debug.Stack())
				}
				panic(r)
			}
		}()
		lookup := func(name string, f func()) {
			w.shim.stale = 0
			if rapid.IntRange(0, 2).Draw(t, "stalepd") == 0 {
				w.shim.stale = rapid.IntRange(1, 4).Draw(t, "staleness")
			}
			before := w.probeAll()
			w.ops = append(w.ops, fmt.Sprintf("%s{stale=%d}", name, w.shim.stale))
			f()
			w.shim.stale = 0
			w.checkNoRegression(name, before, w.probeAll())
		}
		actions := map[string]func(*rapid.T){
			// ------------------------------------------------ topology
			"split": func(t *rapid.T) {
				tr := w.truth()
				if len(tr) >= 7 {
					t.Skip()
				}
				k := w.drawKey("splitkey")
				r := w.regionOf(tr, k)
				if r == nil || r.start == k {
					t.Skip()
				}
				newID := w.cluster.AllocID()
				peerIDs := w.cluster.AllocIDs(len(r.peers))
				leader := peerIDs[0]
				for i, p := range r.peers {
					if p.Id == r.leaderPeer {
						leader = peerIDs[i]
					}
				}
				oldVer := r.ver
				w.cluster.Split(r.id, newID, []byte(k), peerIDs, leader)
				for _, x := range w.cluster.GetAllRegions() {
					if x.Meta.Id == r.id || x.Meta.Id == newID {
						x.Meta.RegionEpoch = &metapb.RegionEpoch{ConfVer: r.conf, Version: oldVer + 1}
					}
				}
				w.topoChanged = true
				w.changedBorders[k] = true
				w.ops = append(w.ops, fmt.Sprintf("split(r%d@%q->r%d)", r.id, k, newID))
				w.record()
			},
			"merge": func(t *rapid.T) {
				tr := w.truth()
				if len(tr) < 2 {
					t.Skip()
				}
				i := rapid.IntRange(0, len(tr)-2).Draw(t, "left")
				a, b := tr[i], tr[i+1]
				// merging needs the two regions on the same stores (as TiKV requires)
				if len(a.peers) != len(b.peers) {
					t.Skip()
				}
				sa := map[uint64]bool{}
				for _, p := range a.peers {
					sa[p.StoreId] = true
				}
				for _, p := range b.peers {
					if !sa[p.StoreId] {
						t.Skip()
					}
				}
				w.cluster.Merge(a.id, b.id)
				nv := a.ver
				if b.ver > nv {
					nv = b.ver
				}
				a.ref.Meta.RegionEpoch = &metapb.RegionEpoch{ConfVer: a.conf, Version: nv + 1}
				w.topoChanged = true
				w.changedBorders[b.start] = true
				w.ops = append(w.ops, fmt.Sprintf("merge(r%d<-r%d)", a.id, b.id))
				w.record()
			},
			"transferLeader": func(t *rapid.T) {
				tr := w.truth()
				r := tr[rapid.IntRange(0, len(tr)-1).Draw(t, "region")]
				p := r.peers[rapid.IntRange(0, len(r.peers)-1).Draw(t, "peer")]
				w.cluster.ChangeLeader(r.id, p.Id)
				w.ops = append(w.ops, fmt.Sprintf("leader(r%d->s%d)", r.id, p.StoreId))
				w.record()
			},
			"removePeer": func(t *rapid.T) {
				tr := w.truth()
				r := tr[rapid.IntRange(0, len(tr)-1).Draw(t, "region")]
				if len(r.peers) <= 2 {
					t.Skip()
				}
				var cands []*metapb.Peer
				for _, p := range r.peers {
					if p.Id != r.leaderPeer {
						cands = append(cands, p)
					}
				}
				p := cands[rapid.IntRange(0, len(cands)-1).Draw(t, "peer")]
				w.cluster.RemovePeer(r.id, p.Id)
				w.ops = append(w.ops, fmt.Sprintf("removePeer(r%d,s%d)", r.id, p.StoreId))
				w.record()
			},
			"addPeer": func(t *rapid.T) {
				tr := w.truth()
				r := tr[rapid.IntRange(0, len(tr)-1).Draw(t, "region")]
				has := map[uint64]bool{}
				for _, p := range r.peers {
					has[p.StoreId] = true
				}
				var free []uint64
				for _, s := range w.stores {
					if !has[s] {
						free = append(free, s)
					}
				}
				if len(free) == 0 {
					t.Skip()
				}
				s := free[rapid.IntRange(0, len(free)-1).Draw(t, "store")]
				w.cluster.AddPeer(r.id, s, w.cluster.AllocID())
				w.ops = append(w.ops, fmt.Sprintf("addPeer(r%d,s%d)", r.id, s))
				w.record()
			},
			"stopStore": func(t *rapid.T) {
				if len(w.stopped) > 0 {
					t.Skip()
				}
				s := w.stores[rapid.IntRange(0, len(w.stores)-1).Draw(t, "store")]
				w.cluster.StopStore(s)
				w.stopped[s] = true
				w.ops = append(w.ops, fmt.Sprintf("stopStore(s%d)", s))
			},
			"startStore": func(t *rapid.T) {
				for s := range w.stopped {
					w.cluster.StartStore(s)
					delete(w.stopped, s)
					w.ops = append(w.ops, fmt.Sprintf("startStore(s%d)", s))
				}
			},
			// ------------------------------------------------ lookups
			"locateKey": func(t *rapid.T) {
				k := w.drawKey("key")
				lookup(fmt.Sprintf("LocateKey(%q)", k), func() {
					l, err := w.cache.LocateKey(w.bo(), []byte(k))
					if err != nil {
						w.fail("LocateKey(%q) failed: %v", k, err)
					}
					w.knownDesc("LocateKey", l)
					if !l.Contains([]byte(k)) {
						w.fail("LocateKey(%q) returned %s which does not contain the key", k, locStr(l))
					}
				})
			},
			"locateEndKey": func(t *rapid.T) {
				k := w.drawKey("key")
				lookup(fmt.Sprintf("LocateEndKey(%q)", k), func() {
					l, err := w.cache.LocateEndKey(w.bo(), []byte(k))
					if err != nil {
						w.fail("LocateEndKey(%q) failed: %v", k, err)
					}
					w.knownDesc("LocateEndKey", l)
					if !(string(l.StartKey) < k && (len(l.EndKey) == 0 || k <= string(l.EndKey))) {
						w.fail("LocateEndKey(%q) returned %s; need start < key <= end", k, locStr(l))
					}
				})
			},
			"tryLocateKey": func(t *rapid.T) {
				k := w.drawKey("key")
				if l := w.cache.TryLocateKey([]byte(k)); l != nil {
					w.knownDesc("TryLocateKey", l)
					if !l.Contains([]byte(k)) {
						w.fail("TryLocateKey(%q) returned %s which does not contain the key", k, locStr(l))
					}
				}
			},
			"locateByID": func(t *rapid.T) {
				tr := w.truth()
				r := tr[rapid.IntRange(0, len(tr)-1).Draw(t, "region")]
				lookup(fmt.Sprintf("LocateRegionByID(r%d)", r.id), func() {
					l, err := w.cache.LocateRegionByID(w.bo(), r.id)
					if err != nil {
						if w.shim.stale > 0 {
							return // the stale PD snapshot may predate the region
						}
						w.fail("LocateRegionByID(%d) failed: %v", r.id, err)
					}
					if l.Region.GetID() != r.id {
						w.fail("LocateRegionByID(%d) returned %s", r.id, locStr(l))
					}
					w.knownDesc("LocateRegionByID", l)
				})
			},
			"locateKeyRange": func(t *rapid.T) {
				s, e := w.drawKey("start"), ""
				if rapid.IntRange(0, 3).Draw(t, "unbounded") != 0 {
					e = w.drawKey("end")
					if e < s {
						s, e = e, s
					}
					if e == s {
						e = s + "\x00"
					}
				}
				if rapid.IntRange(0, 5).Draw(t, "fromstart") == 0 {
					s = ""
				}
				w.classifyMulti(s, e)
				lookup(fmt.Sprintf("LocateKeyRange(%q,%q)", s, e), func() {
					locs, err := w.cache.LocateKeyRange(w.bo(), []byte(s), []byte(e))
					if err != nil {
						w.fail("LocateKeyRange(%q,%q) failed: %v", s, e, err)
					}
					w.checkCover(fmt.Sprintf("LocateKeyRange(%q,%q)", s, e), locs, s, e)
				})
			},
			"batchLocate": func(t *rapid.T) {
				n := rapid.IntRange(1, 4).Draw(t, "nranges")
				// sorted, non-overlapping ranges; the last may be unbounded
				pts := map[string]bool{}
				for len(pts) < 2*n {
					pts[w.drawKey("pt")] = true
				}
				var ps []string
				for p := range pts {
					ps = append(ps, p)
				}
				sort.Strings(ps)
				var ranges []kv.KeyRange
				var desc []string
				for i := 0; i < n; i++ {
					s, e := ps[2*i], ps[2*i+1]
					if i == n-1 && rapid.IntRange(0, 2).Draw(t, "lastunbounded") == 0 {
						e = ""
					}
					if i == 0 && rapid.IntRange(0, 5).Draw(t, "fromstart") == 0 {
						s = ""
					}
					ranges = append(ranges, kv.KeyRange{StartKey: []byte(s), EndKey: []byte(e)})
					desc = append(desc, fmt.Sprintf("[%q,%q)", s, e))
					w.classifyMulti(s, e)
				}
				var opts []locate.BatchLocateKeyRangesOpt
				switch rapid.IntRange(0, 2).Draw(t, "opts") {
				case 1:
					opts = append(opts, locate.WithNeedRegionHasLeaderPeer())
				case 2:
					opts = append(opts, locate.WithNeedBuckets())
				}
				name := fmt.Sprintf("BatchLocateKeyRanges(%s,opts=%d)", strings.Join(desc, ""), len(opts))
				lookup(name, func() {
					in := make([]kv.KeyRange, len(ranges))
					copy(in, ranges)
					locs, err := w.cache.BatchLocateKeyRanges(w.bo(), in, opts...)
					if err != nil {
						w.fail("%s failed: %v", name, err)
					}
					// "taken in order, cover every requested range": checked per range below by walking the returned list in
					// order. A stale cached region may overlap regions loaded from PD (stale-but-covering is accepted:
					// the property does not demand freshness), so start keys need not be strictly ascending.
					for _, r := range ranges {
						// the sub-list of locations intersecting this range must cover it
						var sub []*locate.KeyLocation
						for _, l := range locs {
							if (len(l.EndKey) == 0 || string(l.EndKey) > string(r.StartKey)) && (len(r.EndKey) == 0 || string(l.StartKey) < string(r.EndKey)) {
								sub = append(sub, l)
							}
						}
						if len(sub) == 0 {
							w.fail("%s returned nothing for range [%q,%q): %s", name, r.StartKey, r.EndKey, locsStr(locs))
						}
						w.checkCover(fmt.Sprintf("%s range [%q,%q)", name, r.StartKey, r.EndKey), sub, string(r.StartKey), string(r.EndKey))
					}
				})
			},
			"groupKeys": func(t *rapid.T) {
				n := rapid.IntRange(1, 6).Draw(t, "nkeys")
				set := map[string]bool{}
				for i := 0; i < n; i++ {
					set[w.drawKey("k")] = true
				}
				var keys []string
				for k := range set {
					keys = append(keys, k)
				}
				sort.Strings(keys)
				lookup(fmt.Sprintf("GroupKeysByRegion(%q)", keys), func() {
					var in [][]byte
					for _, k := range keys {
						in = append(in, []byte(k))
					}
					groups, first, err := w.cache.GroupKeysByRegion(w.bo(), in, nil)
					if err != nil {
						w.fail("GroupKeysByRegion failed: %v", err)
					}
					seen := map[string]int{}
					for id, ks := range groups {
						loc, err := w.cache.LocateRegionByID(w.bo(), id.GetID())
						_ = err
						for _, k := range ks {
							seen[string(k)]++
							// the group's region (as cached at grouping time) must contain the key: check through TryLocateKey
							if l := w.cache.TryLocateKey(k); l != nil && l.Region.GetID() == id.GetID() && !l.Contains(k) {
								w.fail("GroupKeysByRegion put key %q into %s which does not contain it", k, locStr(l))
							}
							_ = loc
						}
					}
					for _, k := range keys {
						if seen[k] != 1 {
							w.fail("GroupKeysByRegion assigned key %q to %d groups (keys %q, groups %v)", k, seen[k], keys, groups)
						}
					}
					if l := w.cache.TryLocateKey([]byte(keys[0])); l != nil && first.GetID() != 0 {
						found := false
						for id := range groups {
							if id == first {
								found = true
							}
						}
						if !found {
							w.fail("GroupKeysByRegion: the first key's region %v is not among the groups", first)
						}
					}
				})
			},
			"listRegionIDs": func(t *rapid.T) {
				s, e := w.drawKey("start"), w.drawKey("end")
				if e < s {
					s, e = e, s
				}
				lookup(fmt.Sprintf("ListRegionIDsInKeyRange(%q,%q)", s, e), func() {
					ids, err := w.cache.ListRegionIDsInKeyRange(w.bo(), []byte(s), []byte(e))
					if err != nil || len(ids) == 0 {
						w.fail("ListRegionIDsInKeyRange(%q,%q) = %v, %v", s, e, ids, err)
					}
				})
			},
			"loadRegionsInKeyRange": func(t *rapid.T) {
				s, e := w.drawKey("start"), w.drawKey("end")
				if e < s {
					s, e = e, s
				}
				if e == s {
					e += "\x00"
				}
				lookup(fmt.Sprintf("LoadRegionsInKeyRange(%q,%q)", s, e), func() {
					regs, err := w.cache.LoadRegionsInKeyRange(w.bo(), []byte(s), []byte(e))
					if err != nil {
						w.fail("LoadRegionsInKeyRange failed: %v", err)
					}
					var locs []*locate.KeyLocation
					for _, r := range regs {
						locs = append(locs, &locate.KeyLocation{Region: r.VerID(), StartKey: r.StartKey(), EndKey: r.EndKey()})
					}
					w.checkCover(fmt.Sprintf("LoadRegionsInKeyRange(%q,%q)", s, e), locs, s, e)
				})
			},
			"batchLoadFromKey": func(t *rapid.T) {
				s := w.drawKey("start")
				cnt := rapid.IntRange(1, 4).Draw(t, "count")
				lookup(fmt.Sprintf("BatchLoadRegionsFromKey(%q,%d)", s, cnt), func() {
					end, err := w.cache.BatchLoadRegionsFromKey(w.bo(), []byte(s), cnt)
					if err != nil {
						w.fail("BatchLoadRegionsFromKey failed: %v", err)
					}
					if len(end) != 0 && string(end) <= s {
						w.fail("BatchLoadRegionsFromKey(%q) returned end key %q at or before the start key", s, end)
					}
				})
			},
			"invalidate": func(t *rapid.T) {
				k := w.drawKey("key")
				if l := w.cache.TryLocateKey([]byte(k)); l != nil {
					w.cache.InvalidateCachedRegion(l.Region)
					w.ops = append(w.ops, fmt.Sprintf("invalidate(%s)", locStr(l)))
				}
			},
			// what a sender does after it failed to reach every known peer of a region: the cached region is kept but
			// flagged "reload on next access" (RegionCache.OnSendFail with scheduleReload)
			"sendFailed": func(t *rapid.T) {
				k := w.drawKey("key")
				l := w.cache.TryLocateKey([]byte(k))
				if l == nil {
					return
				}
				bo := w.bo()
				ctx, err := w.cache.GetTiKVRPCContext(bo, l.Region, kv.ReplicaReadLeader, 0)
				if err != nil || ctx == nil {
					return
				}
				w.cache.OnSendFail(bo, ctx, true, errors.New("injected send failure"))
				w.ops = append(w.ops, fmt.Sprintf("sendFailed(%s)", locStr(l)))
			},
			"send": func(t *rapid.T) {
				k := w.drawKey("key")
				lookup(fmt.Sprintf("send(Get %q)", k), func() { w.sendGet(k, 3, false) })
			},
		}
		// weights: rapid picks actions uniformly, so the ones that make a case non-trivial are entered several times
		for _, n := range []string{"split", "split", "merge", "batchLocate", "batchLocate", "locateKeyRange", "locateKeyRange", "locateKey", "sendFailed"} {
			for i := 2; ; i++ {
				if _, ok := actions[fmt.Sprintf("%s#%d", n, i)]; !ok {
					actions[fmt.Sprintf("%s#%d", n, i)] = actions[n]
					break
				}
			}
		}
		t.Repeat(actions)
		// convergence once topology changes stop: all stores up, every region has a leader, PD is fresh
		for s := range w.stopped {
			w.cluster.StartStore(s)
		}
		w.shim.stale = 0
		for _, k := range append([]string{"\x01"}, keyAlphabet...) {
			w.ops = append(w.ops, fmt.Sprintf("converge(%q)", k))
			w.sendGet(k, 12, true)
		}
		var shape []string
		for _, o := range w.ops {
			if i := strings.IndexAny(o, "({"); i > 0 {
				o = o[:i]
			}
			shape = append(shape, o)
		}
		classes := []string{}
		for n, b := range map[string]bool{"topology-changed": w.topoChanged, "multi-lookup-over-changed-border": w.multiOverChanged, "partly-warm-multi-lookup": w.warmMulti,
			"cached-last-region-unbounded": w.unboundedCachedLast, "stale-pd-answer-used": w.shim.used > 0} {
			if b {
				classes = append(classes, n)
			}
		}
		sort.Strings(classes)
		ops := w.ops
		if len(ops) > 14 {
			ops = append(ops[:14:14], fmt.Sprintf("... %d more", len(w.ops)-14))
		}
		rec.Case(strings.Join(shape, ","), w.topoChanged && w.multiOverChanged && w.warmMulti, classes, ops)
	})
}

// sendGet performs a Get on key k through RegionRequestSender with the standard relocate loop.
func (w *world) sendGet(k string, rounds int, must bool) {
	sender := locate.NewRegionRequestSender(w.cache, w.store.GetTiKVClient(), oracle.NoopReadTSValidator{})
	bo := w.bo()
	var lastErr string
	for i := 0; i < rounds; i++ {
		loc, err := w.cache.LocateKey(bo, []byte(k))
		if err != nil {
			lastErr = err.Error()
			continue
		}
		if !loc.Contains([]byte(k)) {
			w.fail("LocateKey(%q) during send returned %s", k, locStr(loc))
		}
		req := tikvrpc.NewRequest(tikvrpc.CmdGet, &kvrpcpb.GetRequest{Key: []byte(k), Version: 1 << 40})
		var resp *tikvrpc.Response
		func() {
			defer func() {
				if r := recover(); r != nil {
					var ts []string
					for _, x := range w.truth() {
						ts = append(ts, fmt.Sprintf("r%d(v%d,c%d)[%s,%s)", x.id, x.ver, x.conf, x.start, x.end))
					}
					w.fail("a Get on key %q sent with region context %s made the store panic: %v; ground truth: %s", k, locStr(loc), r, strings.Join(ts, " "))
				}
			}()
			resp, _, err = sender.SendReq(bo, req, loc.Region, time.Second)
		}()
		if err != nil {
			lastErr = err.Error()
			continue
		}
		re, err := resp.GetRegionError()
		if err != nil {
			lastErr = err.Error()
			continue
		}
		if re != nil {
			lastErr = re.String()
			continue
		}
		// reached a store that served the request: it must be the current leader of the region holding k
		tr := w.truth()
		r := w.regionOf(tr, k)
		if r == nil {
			w.fail("ground truth has no region for key %q", k)
		}
		if must && sender.GetStoreAddr() != fmt.Sprintf("store%d", r.leaderStore) {
			w.fail("Get(%q) was served by %s but the region's leader is on store%d", k, sender.GetStoreAddr(), r.leaderStore)
		}
		return
	}
	if must {
		w.fail("a Get on key %q did not reach the region leader within %d relocate rounds after topology changes stopped (last: %s)", k, rounds, lastErr)
	}
}
