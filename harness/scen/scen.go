// Package scen holds the commit scenarios shared by the crash (C02), fault (C03) and
// clean-up (C06) checks: initial data, one victim transaction, an optional conflicting
// commit, recovery transactions of another client, and the runner that executes a
// scenario with a fault plan armed on the victim's Commit.
package scen

import (
	"context"
	"fmt"
	"math"
	"runtime/debug"
	"sort"
	"strings"
	"time"

	"github.com/tikv/client-go/v2/config"
	"github.com/tikv/client-go/v2/kv"
	"github.com/tikv/client-go/v2/tikv"
	"github.com/tikv/client-go/v2/verif/sim"
	"pgregory.net/rapid"
)

var keyPool = []string{"a", "b", "c", "d", "e"}

// Program is one commit scenario without its fault plan.
type Program struct {
	Backend  sim.Backend
	NStores  int
	Batch1   bool
	Conc1    bool
	Keys     []string
	Splits   []string
	Initial  []*sim.Step // txn 100 (client 1): initial data
	Victim   []*sim.Step // txn 0 (client 0): begin ... (commit is appended by the runner)
	Conflict []*sim.Step // txn 101 (client 1): commits after the victim began
	Recovery []*sim.Step // txns 200.. (client 1) after the locks expired
	// SlowSecondaries: "lock present" answers of CheckSecondaryLocks arrive after "lock missing" ones (sim.Cluster)
	SlowSecondaries bool
}

// Steps renders a step list.
func Steps(ss []*sim.Step) string {
	var o []string
	for _, s := range ss {
		o = append(o, s.String())
	}
	return strings.Join(o, " ; ")
}

func (p *Program) String() string {
	return fmt.Sprintf("backend=%v stores=%d batch1=%v conc1=%v slow-present-secondaries=%v splits=%q | init: %s | victim: %s | conflict: %s | recovery: %s",
		p.Backend, p.NStores, p.Batch1, p.Conc1, p.SlowSecondaries, p.Splits, Steps(p.Initial), Steps(p.Victim), Steps(p.Conflict), Steps(p.Recovery))
}

// Gen draws a scenario.
func Gen(t *rapid.T, backend sim.Backend) *Program {
	p := &Program{Backend: backend, NStores: 1}
	if backend == sim.Mock {
		p.NStores = rapid.SampledFrom([]int{1, 3}).Draw(t, "stores")
	}
	p.Batch1 = rapid.Bool().Draw(t, "batch1")
	p.Conc1 = rapid.IntRange(0, 3).Draw(t, "conc1") != 0
	if backend == sim.Uni {
		p.SlowSecondaries = rapid.Bool().Draw(t, "slowsecondaries")
	}
	nKeys := rapid.IntRange(1, 5).Draw(t, "nkeys")
	p.Keys = append([]string{}, rapid.Permutation(keyPool).Draw(t, "keys")[:nKeys]...)
	sort.Strings(p.Keys)
	for i := rapid.IntRange(0, 3).Draw(t, "nsplits"); i > 0; i-- {
		k := rapid.SampledFrom(keyPool).Draw(t, "splitkey")
		if rapid.Bool().Draw(t, "offkey") {
			k += "0"
		}
		p.Splits = append(p.Splits, k)
	}
	key := func(name string) string { return rapid.SampledFrom(p.Keys).Draw(t, name) }
	// initial data
	p.Initial = []*sim.Step{{Txn: 100, Op: "begin", Client: 1}}
	for _, k := range p.Keys {
		if rapid.Bool().Draw(t, "init") {
			p.Initial = append(p.Initial, &sim.Step{Txn: 100, Op: "set", Keys: []string{k}, Val: "i." + k})
		}
	}
	p.Initial = append(p.Initial, &sim.Step{Txn: 100, Op: "commit"})
	// victim
	pess := rapid.Bool().Draw(t, "pessimistic")
	b := &sim.Step{Txn: 0, Op: "begin", Client: 0, Pessimistic: pess}
	// requested on both stores: mocktikv always answers with the fall-back form (see prog.Gen)
	{
		switch rapid.IntRange(0, 3).Draw(t, "mode") {
		case 1:
			b.Async = true
		case 2:
			b.OnePC = true
		case 3:
			b.Async, b.OnePC = true, true
		}
	}
	p.Victim = []*sim.Step{b}
	nOps := rapid.IntRange(1, 5).Draw(t, "nops")
	inserted := map[string]bool{}
	for j := 0; j < nOps; j++ {
		ops := []string{"set", "set", "set", "delete", "insert", "get"}
		if !pess {
			ops = append(ops, "insdel") // insert then delete: prewritten as a non-locking existence check
		}
		// unistore records the commit of a lock-only (Op_Lock) key only when it is the primary, so a resolver
		// cannot tell a committed lock-only secondary of an async-commit transaction from a missing one (TiKV
		// writes a Lock record): no lock-only keys on unistore (no bare lock, no pessimistic insert-then-delete)
		if pess && backend != sim.Uni {
			ops = append(ops, "lock")
		}
		s := &sim.Step{Txn: 0, Op: rapid.SampledFrom(ops).Draw(t, "op"), Keys: []string{key("k")}}
		if pess && backend == sim.Uni && s.Op == "delete" && inserted[s.Keys[0]] {
			s.Op = "set"
		}
		if s.Op == "insdel" {
			s.Op, s.Val = "insert", fmt.Sprintf("v.%d", j)
			p.Victim = append(p.Victim, s)
			s = &sim.Step{Txn: 0, Op: "delete", Keys: s.Keys}
		}
		if s.Op == "insert" {
			inserted[s.Keys[0]] = true
		}
		switch s.Op {
		case "set", "insert":
			s.Val = fmt.Sprintf("v.%d", j)
			s.LockFirst = pess && s.Op == "set"
		case "delete":
			s.LockFirst = pess
		}
		p.Victim = append(p.Victim, s)
	}
	// a conflicting commit after the victim began (makes Commit fail definitely for optimistic victims,
	// or pessimistic statements fail)
	if rapid.IntRange(0, 3).Draw(t, "conflict") == 0 {
		p.Conflict = []*sim.Step{{Txn: 101, Op: "begin", Client: 1}, {Txn: 101, Op: "set", Keys: []string{key("ck")}, Val: "c"}, {Txn: 101, Op: "commit"}}
	}
	// recovery by the other client
	nRec := rapid.IntRange(1, 4).Draw(t, "nrec")
	for j := 0; j < nRec; j++ {
		p.Recovery = append(p.Recovery, GenReader(t, backend, p.Keys, 200+j, 1, true)...)
	}
	return p
}

// GenReader draws one small transaction of another client: a read of some kind or (writes=true) a write.
func GenReader(t *rapid.T, backend sim.Backend, keys []string, id, client int, writes bool) []*sim.Step {
	key := func(name string) string { return rapid.SampledFrom(keys).Draw(t, name) }
	kinds := []string{"get", "batchget", "iter", "batchget"}
	if writes {
		kinds = append(kinds, "write", "lockwrite", "write", "lockwrite") // writers are the ones that must clear leftover locks
	}
	if backend == sim.Mock {
		kinds = append(kinds, "iterrev")
	}
	out := []*sim.Step{{Txn: id, Op: "begin", Client: client}}
	switch kind := rapid.SampledFrom(kinds).Draw(t, "rec"); kind {
	case "get":
		out = append(out, &sim.Step{Txn: id, Op: "get", Keys: []string{key("rk")}})
	case "batchget":
		out = append(out, &sim.Step{Txn: id, Op: "batchget", Keys: keys})
	case "iter":
		out = append(out, &sim.Step{Txn: id, Op: "iter", Lo: "a", Hi: ""})
	case "iterrev":
		out = append(out, &sim.Step{Txn: id, Op: "iterrev", Lo: "a", Hi: "~"})
	case "write":
		out = append(out, &sim.Step{Txn: id, Op: "set", Keys: []string{key("rk")}, Val: fmt.Sprintf("r.%d", id)})
	case "lockwrite":
		out[0].Pessimistic = true
		out = append(out, &sim.Step{Txn: id, Op: "set", Keys: []string{key("rk")}, Val: fmt.Sprintf("r.%d", id), LockFirst: true})
	}
	return append(out, &sim.Step{Txn: id, Op: "commit"})
}

// Opts selects what happens during the victim's Commit.
type Opts struct {
	Faults []sim.FaultSpec // armed on the victim's Commit (kept armed until its background work drained)
	// KillIfAlive kills the victim client after Commit and its background work if no fault killed it before
	// (a crash point beyond the run's request count)
	KillIfAlive bool
	Rules       map[string]bool // history rules (nil = all)
	NoRecovery  bool            // skip the recovery transactions (the auditor still resolves what is left)
	NoExpire    bool            // do not let locks expire before the recovery / audit
}

// Outcome of one run.
type Outcome struct {
	Viol      []sim.Violation
	Infra     string
	Hung      string
	Void      string // the store implementation panicked (unistore substrate defect): the case says nothing
	RPCs      int    // traced RPCs of the victim's Commit (sync + background)
	SyncRPCs  int    // of which before Commit returned
	LeftLocks int    // locks in the store when the victim was done / dead, before expiry and recovery
	Told      string
	Victim    *sim.TxnRec
	Fate      string
	Log       []string
	Truth     *sim.Truth
	Trace     string
	Entries   []*sim.Entry
	World     *sim.World
	ReadErrs  int
}

// Run executes the scenario on a fresh cluster.
func Run(p *Program, o Opts) (res Outcome) {
	oldBatch := kv.TxnCommitBatchSize.Load()
	if p.Batch1 {
		kv.TxnCommitBatchSize.Store(1)
	}
	defer kv.TxnCommitBatchSize.Store(oldBatch)
	cfg := *config.GetGlobalConfig()
	orig := cfg
	if p.Conc1 {
		cfg.CommitterConcurrency = 1
	}
	config.StoreGlobalConfig(&cfg)
	defer config.StoreGlobalConfig(&orig)

	cl, err := sim.NewCluster(p.Backend, p.NStores, 3)
	if err != nil {
		res.Infra = err.Error()
		return
	}
	defer cl.Close()
	cl.SlowPresentSecondaries = p.SlowSecondaries
	defer func() { res.Void = cl.StorePanic() }()
	for _, k := range p.Splits {
		cl.SplitAt(k)
	}
	var failMsg string
	w := sim.NewWorld(cl, p.Keys, func(f string, a ...any) {
		if failMsg == "" {
			failMsg = fmt.Sprintf(f, a...)
		}
	})
	defer w.Release()
	res.World = w
	done := make(chan struct{})
	go func() {
		defer close(done)
		defer func() {
			if r := recover(); r != nil && failMsg == "" {
				failMsg = fmt.Sprintf("panic during step %q: %v\n%s", w.Log[len(w.Log)-1], r, debug.Stack())
			}
		}()
		exec := func(ss []*sim.Step) {
			for _, s := range ss {
				if failMsg == "" {
					w.Exec(s)
				}
			}
		}
		exec(p.Initial)
		exec(p.Victim[:1])
		exec(p.Conflict)
		exec(p.Victim[1:])
		exec([]*sim.Step{{Txn: 0, Op: "commit", DrainArmed: true, Faults: o.Faults}})
		res.RPCs, res.SyncRPCs = w.LastCallRPCs, w.LastCallSyncRPCs
		if o.KillIfAlive && !cl.Clients[0].Net.Dead() {
			cl.Clients[0].Net.Kill()
			if t := w.Txns[0]; t != nil {
				t.Ended = "killed"
			}
		}
		if locks, err := (tikv.StoreProbe{KVStore: cl.Clients[2].Store}).ScanLocks(context.Background(), nil, []byte{0xff, 0xff}, math.MaxUint64); err == nil {
			res.LeftLocks = len(locks)
		}
		if !o.NoExpire {
			cl.Expire()
		}
		if !o.NoRecovery {
			exec(p.Recovery)
		}
		if failMsg == "" {
			res.Truth, err = w.Finish()
		}
	}()
	select {
	case <-done:
	case <-time.After(60 * time.Second):
		es := cl.Trace.Since(0)
		if len(es) > 40 {
			es = es[len(es)-40:]
		}
		var tail []string
		for _, e := range es {
			tail = append(tail, sim.DescribeEntry(e))
		}
		res.Hung = fmt.Sprintf("case did not finish within 60 s; log:\n    %s\n  last RPCs:\n    %s\n  goroutines:\n%s", strings.Join(w.Log, "\n    "), strings.Join(tail, "\n    "), sim.GoroutineDump())
		return
	}
	res.Log = w.Log
	if r := cl.Runaway(); r != "" {
		res.Entries = cl.Trace.Since(0)
		if len(res.Entries) > 300 {
			res.Entries = res.Entries[:300]
		}
		res.Victim = w.Txns[0]
		res.Viol = append(res.Viol, sim.Violation{Rule: "termination", Msg: r})
		return
	}
	res.Trace = cl.Trace.Describe()
	res.Entries = cl.Trace.Since(0)
	res.Victim = w.Txns[0]
	res.ReadErrs = w.ReadErrs
	if failMsg != "" {
		res.Viol = append(res.Viol, sim.Violation{Rule: "actor", Msg: failMsg})
		return
	}
	if err != nil {
		res.Infra = "recovery: " + err.Error()
		return
	}
	res.Viol = sim.CheckHistory(w.Recs(), res.Truth, p.Keys, o.Rules, res.Entries...)
	v := res.Victim
	if v == nil {
		return
	}
	oc, _ := sim.OutcomeOf(v, res.Truth)
	res.Fate = "rolled-back"
	if oc.Committed {
		res.Fate = "committed"
	}
	res.Told = "nothing"
	if v.Told {
		res.Told = v.CommitClass
	}
	return
}

// Describe renders a failed outcome.
func (o *Outcome) Describe(p *Program) string {
	var vs []string
	for _, v := range o.Viol {
		vs = append(vs, v.String())
	}
	return fmt.Sprintf("%s\n  scenario: %s\n  told=%s fate=%s\n  log:\n    %s\n  truth: %s\n  rpc trace:\n    %s",
		strings.Join(vs, "\n  "), p, o.Told, o.Fate, strings.Join(o.Log, "\n    "), o.Truth.Describe(p.Keys), strings.ReplaceAll(o.Trace, "\n", "\n    "))
}
