package sim

import (
	"bytes"
	"context"
	"errors"
	"fmt"
	"github.com/pingcap/kvproto/pkg/kvrpcpb"
	"math"
	"sort"
	"strings"
	"sync"
	"time"

	"github.com/tikv/client-go/v2/config/retry"
	tikverr "github.com/tikv/client-go/v2/error"
	"github.com/tikv/client-go/v2/kv"
	"github.com/tikv/client-go/v2/oracle"
	"github.com/tikv/client-go/v2/tikv"
	"github.com/tikv/client-go/v2/tikvrpc"
	"github.com/tikv/client-go/v2/txnkv/transaction"
	"github.com/tikv/client-go/v2/util"
)

// FaultSpec is the serialisable form of a planned fault; Nested is a step run at a gate.
type FaultSpec struct {
	Type   string // Prewrite | Commit | PessimisticLock | Get | ... ("" = any traced request)
	Index  int
	Action string
	Nested *Step
}

func (f FaultSpec) String() string {
	s := fmt.Sprintf("%s@%s#%d", f.Action, f.Type, f.Index)
	if f.Nested != nil {
		s += "{" + f.Nested.String() + "}"
	}
	return s
}

// Step is one API call of the program (or a topology / clock operation).
type Step struct {
	Txn    int
	Op     string // begin get batchget iter iterrev set insert delete lock commit rollback split leader advance
	Keys   []string
	Val    string
	Lo, Hi string
	// begin
	Client      int
	Pessimistic bool
	Async       bool
	OnePC       bool
	Causal      bool
	AssertLevel int    // begin: 0 = off, 1 = fast, 2 = strict (SetAssertionLevel)
	Assert      string // set / insert / delete: "", "exist" or "notexist" - the assertion flag put on the key after the write
	SchemaFail  bool   // begin: install a schema-lease checker that reports a schema change, so that Commit fails with a definite error (before prewrite for async commit / 1PC, between prewrite and commit otherwise)
	// lock
	ReturnValues     bool
	CheckExistence   bool
	LockOnlyIfExists bool
	WaitMs           int64
	// set / delete in a pessimistic txn: lock the key first (a DML statement); the write is skipped if the lock fails
	LockFirst bool
	// faults armed for this call
	Faults []FaultSpec
	// commit: keep the fault plan armed until the client's background work of this call has drained
	// (crash points in the asynchronous part of Commit)
	DrainArmed bool
	// advance
	Ms int64
	// seq: a sequence of steps executed as one (used as the nested step of a gate)
	Sub []*Step
	// commit / rollback while an aggressive-locking attempt is open: finish it with Done (true) or Cancel
	AggrDone bool
}

func (s *Step) String() string {
	var b strings.Builder
	fmt.Fprintf(&b, "T%d.%s", s.Txn, s.Op)
	switch s.Op {
	case "begin":
		fmt.Fprintf(&b, "(client=%d,pess=%v,async=%v,1pc=%v,causal=%v)", s.Client, s.Pessimistic, s.Async, s.OnePC, s.Causal)
		if s.SchemaFail {
			b.WriteString("{schema-changed}")
		}
		if s.AssertLevel > 0 {
			fmt.Fprintf(&b, "{assertions=%d}", s.AssertLevel)
		}
	case "iter", "iterrev":
		fmt.Fprintf(&b, "(%q,%q)", s.Lo, s.Hi)
	case "set", "insert":
		fmt.Fprintf(&b, "(%s=%s)", strings.Join(s.Keys, ","), s.Val)
		if s.LockFirst {
			b.WriteString("!")
		}
		if s.Assert != "" {
			b.WriteString("{assert-" + s.Assert + "}")
		}
	case "delete":
		fmt.Fprintf(&b, "(%s)", strings.Join(s.Keys, ","))
		if s.LockFirst {
			b.WriteString("!")
		}
		if s.Assert != "" {
			b.WriteString("{assert-" + s.Assert + "}")
		}
	case "lock":
		fmt.Fprintf(&b, "(%s,ret=%v,chk=%v,onlyIfExists=%v,wait=%d)", strings.Join(s.Keys, ","), s.ReturnValues, s.CheckExistence, s.LockOnlyIfExists, s.WaitMs)
	case "advance", "sleep":
		fmt.Fprintf(&b, "(%dms)", s.Ms)
	case "expire":
		fmt.Fprintf(&b, "(for client %d)", s.Client)
	case "seq":
		var sub []string
		for _, x := range s.Sub {
			sub = append(sub, x.String())
		}
		return "[" + strings.Join(sub, " ; ") + "]"
	default:
		if len(s.Keys) > 0 {
			fmt.Fprintf(&b, "(%s)", strings.Join(s.Keys, ","))
		}
	}
	if len(s.Faults) > 0 {
		fmt.Fprintf(&b, "%v", s.Faults)
	}
	return b.String()
}

var cmdByName = map[string]tikvrpc.CmdType{
	"Prewrite": tikvrpc.CmdPrewrite, "Commit": tikvrpc.CmdCommit, "PessimisticLock": tikvrpc.CmdPessimisticLock, "Get": tikvrpc.CmdGet,
	"BatchGet": tikvrpc.CmdBatchGet, "Scan": tikvrpc.CmdScan, "BatchRollback": tikvrpc.CmdBatchRollback, "PessimisticRollback": tikvrpc.CmdPessimisticRollback,
	"ResolveLock": tikvrpc.CmdResolveLock, "CheckTxnStatus": tikvrpc.CmdCheckTxnStatus, "Cleanup": tikvrpc.CmdCleanup, "TxnHeartBeat": tikvrpc.CmdTxnHeartBeat,
	"CheckSecondaryLocks": tikvrpc.CmdCheckSecondaryLocks, "Flush": tikvrpc.CmdFlush, "": 0,
}

// assertKey puts the step's assertion flag on the key just written (as TiDB does for the rows a statement writes).
func (w *World) assertKey(t *TxnRec, txn *transaction.KVTxn, s *Step) {
	if s.Assert == "" {
		return
	}
	op := kv.SetAssertExist
	if s.Assert == "notexist" {
		op = kv.SetAssertNotExist
	}
	txn.GetMemBuffer().UpdateFlags([]byte(s.Keys[0]), op)
	t.Writes[len(t.Writes)-1].Assert = s.Assert
}

type schemaChanged struct{}

func (schemaChanged) CheckBySchemaVer(uint64, transaction.SchemaVer) (*transaction.RelatedSchemaChange, error) {
	return nil, errors.New("sim: information schema is changed")
}

// World executes programs on a cluster and records the history.
type World struct {
	Cl       *Cluster
	Keys     []string // key universe of the case
	Txns     map[int]*TxnRec
	handles  map[int]*transaction.KVTxn
	order    []int
	StepNo   int
	Log      []string
	depth    int
	gateMu   sync.Mutex // serialises nested (gate) steps with the end of the outer call
	active   int        // call id of the API call the actor is currently inside (0 = none)
	ReadErrs int
	// Frozen is the trace as it was when the case ended (set by Release)
	Frozen []*Entry
	// Auditor resolves leftovers and reads the truth in Finish (default: the last client)
	Auditor *Client
	// number of traced RPCs the last DrainArmed commit issued (synchronous + background)
	LastCallRPCs     int
	LastCallSyncRPCs int                           // of which issued before Commit returned
	Fail             func(format string, a ...any) // harness-level assertion failure (own-write reads etc.)
}

// NewWorld creates a world.
func NewWorld(cl *Cluster, keys []string, fail func(string, ...any)) *World {
	return &World{Cl: cl, Keys: keys, Txns: map[int]*TxnRec{}, handles: map[int]*transaction.KVTxn{}, Fail: fail}
}

// Recs returns the transaction records in begin order.
func (w *World) Recs() []*TxnRec {
	var out []*TxnRec
	for _, id := range w.order {
		out = append(out, w.Txns[id])
	}
	return out
}

func (w *World) ownValue(t *TxnRec, key string) ([]byte, bool, bool) {
	for i := len(t.Writes) - 1; i >= 0; i-- {
		if t.Writes[i].Key == key {
			if t.Writes[i].Op == "delete" {
				return nil, false, true
			}
			return t.Writes[i].Value, true, true
		}
	}
	return nil, false, false
}

func (w *World) recordRead(t *TxnRec, api, key string, val []byte, found bool, at uint64) {
	ov, ofound, own := w.ownValue(t, key)
	if own && api != "lock" {
		if ofound != found || (found && !bytes.Equal(ov, val)) {
			w.Fail("txn %d %s(%s) returned (%q,found=%v) but the txn itself had written (%q,present=%v) before (read-your-writes)", t.ID, api, key, val, found, ov, ofound)
		}
	}
	t.Reads = append(t.Reads, ReadRec{API: api, Key: key, Value: append([]byte{}, val...), Found: found, AtTS: at, OwnSeen: own && api != "lock", Step: w.StepNo})
}

func (w *World) arm(c *Client, txnStart uint64, faults []FaultSpec) int {
	var plan []*Fault
	callID := w.Cl.NextCall()
	if w.depth > 0 {
		faults = nil // nested steps run fault-free (their gates would deadlock on gateMu)
	}
	for i := range faults {
		fs := faults[i]
		f := &Fault{Type: cmdByName[fs.Type], Index: fs.Index, Action: fs.Action}
		if fs.Nested != nil {
			nested := fs.Nested
			f.Gate = func() {
				// a nested step runs only while the actor is blocked inside the armed call: a gate reached by a
				// background goroutine after the call returned must not run a step concurrently with the actor
				w.gateMu.Lock()
				defer w.gateMu.Unlock()
				if w.active != callID || w.depth >= 2 {
					return
				}
				w.depth++
				w.Log = append(w.Log, "  gate{")
				w.Exec(nested)
				w.Log = append(w.Log, "  }")
				w.depth--
			}
		} else if fs.Action == "gateBefore" || fs.Action == "gateAfter" {
			f.Gate = func() {}
		}
		plan = append(plan, f)
	}
	c.Net.Arm(callID, txnStart, plan)
	return callID
}

// Exec runs one step.
func (w *World) Exec(s *Step) {
	w.StepNo++
	w.Log = append(w.Log, s.String())
	ctx := context.Background()
	switch s.Op {
	case "seq":
		for _, sub := range s.Sub {
			w.Exec(sub)
		}
		return
	case "expire":
		w.Cl.ExpireFor(s.Client)
		return
	case "sleep": // real time passes (tickers fire) and the virtual clock follows
		// in slices of 5 ms, so that the virtual clock never jumps by more than a fraction of a heart-beat interval
		for left := s.Ms; left > 0; left -= 5 {
			d := int64(5)
			if left < d {
				d = left
			}
			time.Sleep(time.Duration(d) * time.Millisecond)
			if w.Cl.Clock != nil {
				w.Cl.Clock.Advance(time.Duration(d) * time.Millisecond)
			}
		}
		return
	case "split":
		w.Cl.SplitAt(s.Keys[0])
		return
	case "leader":
		w.Cl.TransferLeader(s.Keys[0], int(s.Ms))
		return
	case "advance":
		if w.Cl.Clock != nil {
			w.Cl.Clock.Advance(time.Duration(s.Ms) * time.Millisecond)
		}
		return
	case "begin":
		if w.Txns[s.Txn] != nil {
			return
		}
		c := w.Cl.Clients[s.Client%len(w.Cl.Clients)]
		if c.Net.Dead() {
			return
		}
		t := &TxnRec{ID: s.Txn, Client: c.ID, Pessimistic: s.Pessimistic, Async: s.Async, OnePC: s.OnePC, Causal: s.Causal, BeginStep: w.StepNo}
		txn, err := c.Store.Begin()
		if err != nil {
			w.Log = append(w.Log, fmt.Sprintf("  begin failed: %v", err))
			return
		}
		txn.SetPessimistic(s.Pessimistic)
		txn.SetEnableAsyncCommit(s.Async)
		txn.SetEnable1PC(s.OnePC)
		txn.SetCausalConsistency(s.Causal)
		if s.SchemaFail {
			txn.SetSchemaLeaseChecker(schemaChanged{})
		}
		if s.AssertLevel > 0 {
			txn.SetAssertionLevel(kvrpcpb.AssertionLevel(s.AssertLevel))
			t.AssertLevel = s.AssertLevel
		}
		t.StartTS = txn.StartTS()
		w.Txns[s.Txn], w.handles[s.Txn] = t, txn
		w.order = append(w.order, s.Txn)
		return
	}
	t, txn := w.Txns[s.Txn], w.handles[s.Txn]
	if t == nil || t.Ended != "" {
		return
	}
	c := w.Cl.Clients[t.Client]
	if c.Net.Dead() {
		t.Ended = "killed"
		return
	}
	saved := c.Net.Save()
	callID := w.arm(c, t.StartTS, s.Faults)
	if w.depth == 0 {
		w.gateMu.Lock()
		w.active = callID
		w.gateMu.Unlock()
		defer func() {
			w.gateMu.Lock()
			w.active = 0
			w.gateMu.Unlock()
			c.Net.Disarm()
		}()
	} else {
		// a nested step on the outer call's client must leave that call's fault plan and counters intact; the
		// outer call stays the active one
		outer := w.active
		w.active = callID
		defer func() {
			w.active = outer
			c.Net.Restore(saved)
		}()
	}
	if txn.IsInAggressiveLockingMode() && (s.Op == "set" || s.Op == "insert" || s.Op == "delete") {
		return // a statement attempt only locks; its writes come after the attempt is done
	}
	switch s.Op {
	case "get":
		v, err := txn.Get(ctx, []byte(s.Keys[0]))
		if err != nil && !tikverr.IsErrNotFound(err) {
			w.ReadErrs++
			w.Log = append(w.Log, fmt.Sprintf("  get error: %v", err))
			return
		}
		w.recordRead(t, "get", s.Keys[0], v.Value, err == nil, t.StartTS)
	case "batchget":
		var ks [][]byte
		for _, k := range s.Keys {
			ks = append(ks, []byte(k))
		}
		m, err := txn.BatchGet(ctx, ks)
		if err != nil {
			w.ReadErrs++
			w.Log = append(w.Log, fmt.Sprintf("  batchget error: %v", err))
			return
		}
		seen := map[string]bool{}
		for _, k := range s.Keys {
			if seen[k] {
				continue
			}
			seen[k] = true
			e, ok := m[k]
			w.recordRead(t, "batchget", k, e.Value, ok, t.StartTS)
		}
	case "iter", "iterrev":
		var got [][2][]byte
		var err error
		if s.Op == "iter" {
			var hi []byte
			if s.Hi != "" {
				hi = []byte(s.Hi)
			}
			it, e := txn.Iter([]byte(s.Lo), hi)
			err = e
			for err == nil && it.Valid() {
				got = append(got, [2][]byte{append([]byte{}, it.Key()...), append([]byte{}, it.Value()...)})
				err = it.Next()
			}
			if e == nil {
				it.Close()
			}
		} else {
			var hi []byte
			if s.Hi != "" {
				hi = []byte(s.Hi)
			}
			it, e := txn.IterReverse(hi, []byte(s.Lo))
			err = e
			for err == nil && it.Valid() {
				got = append(got, [2][]byte{append([]byte{}, it.Key()...), append([]byte{}, it.Value()...)})
				err = it.Next()
			}
			if e == nil {
				it.Close()
			}
		}
		if err != nil {
			w.ReadErrs++
			w.Log = append(w.Log, fmt.Sprintf("  %s error: %v", s.Op, err))
			return
		}
		// order + bounds
		for i, p := range got {
			k := string(p[0])
			if k < s.Lo || (s.Hi != "" && k >= s.Hi) {
				w.Fail("txn %d %s(%q,%q) yielded key %q outside its bounds", t.ID, s.Op, s.Lo, s.Hi, k)
			}
			if i > 0 {
				prev := string(got[i-1][0])
				if (s.Op == "iter" && prev >= k) || (s.Op == "iterrev" && prev <= k) {
					w.Fail("txn %d %s(%q,%q) is not strictly monotone: %q then %q", t.ID, s.Op, s.Lo, s.Hi, prev, k)
				}
			}
		}
		res := map[string][]byte{}
		for _, p := range got {
			res[string(p[0])] = p[1]
		}
		for _, k := range w.Keys {
			if k < s.Lo || (s.Hi != "" && k >= s.Hi) {
				continue
			}
			v, ok := res[k]
			w.recordRead(t, s.Op, k, v, ok, t.StartTS)
			delete(res, k)
		}
		for k := range res {
			w.Fail("txn %d %s(%q,%q) yielded key %q which no transaction of the case ever wrote", t.ID, s.Op, s.Lo, s.Hi, k)
		}
	case "set":
		if !w.lockFirst(t, txn, c, s) {
			return
		}
		v := []byte(s.Val)
		if err := txn.Set([]byte(s.Keys[0]), v); err != nil {
			w.Fail("Set failed: %v", err)
		}
		t.Writes = append(t.Writes, WriteRec{Key: s.Keys[0], Op: "set", Value: v, Step: w.StepNo})
		w.assertKey(t, txn, s)
	case "insert":
		v := []byte(s.Val)
		k := []byte(s.Keys[0])
		if _, _, own := w.ownValue(t, s.Keys[0]); own {
			// an insert over the txn's own earlier write is just a set for the store
			if err := txn.Set(k, v); err != nil {
				w.Fail("Set failed: %v", err)
			}
			t.Writes = append(t.Writes, WriteRec{Key: s.Keys[0], Op: "set", Value: v, Step: w.StepNo})
			w.assertKey(t, txn, s)
			return
		}
		if !t.Pessimistic {
			if err := txn.GetMemBuffer().SetWithFlags(k, v, kv.SetPresumeKeyNotExists); err != nil {
				w.Fail("SetWithFlags failed: %v", err)
			}
			t.Writes = append(t.Writes, WriteRec{Key: s.Keys[0], Op: "insert", Value: v, Step: w.StepNo})
			w.assertKey(t, txn, s)
			return
		}
		// pessimistic insert as a statement: stage, write with presume-not-exists, lock (existence is checked by the lock); undo on failure
		h := txn.GetMemBuffer().Staging()
		if err := txn.GetMemBuffer().SetWithFlags(k, v, kv.SetPresumeKeyNotExists, kv.SetNewlyInserted); err != nil {
			w.Fail("SetWithFlags failed: %v", err)
		}
		fu, err := w.forUpdateTS(c)
		if err == nil {
			err = txn.LockKeys(ctx, kv.NewLockCtx(fu, kv.LockNoWait, time.Now()), k)
		}
		if err != nil {
			txn.GetMemBuffer().Cleanup(h)
			w.Log = append(w.Log, fmt.Sprintf("  pessimistic insert refused: %v", err))
			w.settleFailedLock()
			return
		}
		txn.GetMemBuffer().Release(h)
		t.Locks = append(t.Locks, LockRec{Keys: []string{s.Keys[0]}, ForUpdateTS: fu, Step: w.StepNo})
		t.Writes = append(t.Writes, WriteRec{Key: s.Keys[0], Op: "insert", Value: v, Step: w.StepNo})
		w.assertKey(t, txn, s)
	case "delete":
		if !w.lockFirst(t, txn, c, s) {
			return
		}
		if err := txn.Delete([]byte(s.Keys[0])); err != nil {
			w.Fail("Delete failed: %v", err)
		}
		t.Writes = append(t.Writes, WriteRec{Key: s.Keys[0], Op: "delete", Step: w.StepNo})
		w.assertKey(t, txn, s)
	case "lock":
		if !t.Pessimistic {
			// LockKeys of an optimistic transaction sends nothing: the keys are marked in the buffer and prewritten as
			// lock-type mutations (or with their value, if written too), i.e. conflict-checked from the start ts on
			var ks [][]byte
			var names []string
			uniq := map[string]bool{}
			for _, k := range s.Keys {
				if !uniq[k] {
					uniq[k] = true
					ks = append(ks, []byte(k))
					names = append(names, k)
				}
			}
			if err := txn.LockKeys(ctx, kv.NewLockCtx(t.StartTS, kv.LockNoWait, time.Now()), ks...); err != nil {
				w.Log = append(w.Log, fmt.Sprintf("  lock error: %v", err))
				return
			}
			sort.Strings(names)
			t.Locks = append(t.Locks, LockRec{Keys: names, ForUpdateTS: t.StartTS, Step: w.StepNo})
			return
		}
		fu, err := w.forUpdateTS(c)
		if err != nil {
			return
		}
		if txn.IsInAggressiveLockingMode() && t.StmtFU != 0 {
			fu = t.StmtFU // commits of others since the attempt began now give "locked with conflict" results
		}
		wait := s.WaitMs
		if wait == 0 {
			wait = kv.LockNoWait
		}
		lc := kv.NewLockCtx(fu, wait, time.Now())
		if s.ReturnValues {
			lc.InitReturnValues(len(s.Keys))
			lc.LockOnlyIfExists = s.LockOnlyIfExists
		} else if s.CheckExistence {
			lc.InitCheckExistence(len(s.Keys))
		}
		var ks [][]byte
		uniq := map[string]bool{}
		for _, k := range s.Keys {
			if !uniq[k] {
				uniq[k] = true
				ks = append(ks, []byte(k))
			}
		}
		err = txn.LockKeys(ctx, lc, ks...)
		if err != nil {
			w.Log = append(w.Log, fmt.Sprintf("  lock error: %v", err))
			w.settleFailedLock()
			return
		}
		var locked []string
		for k := range uniq {
			rv, has := lc.Values[k]
			if s.ReturnValues && s.LockOnlyIfExists && (!has || !rv.Exists) {
				continue // not locked: the key does not exist
			}
			locked = append(locked, k)
			if s.ReturnValues && has && !rv.AlreadyLocked {
				w.recordRead(t, "lock", k, rv.Value, rv.Exists, fu)
			}
		}
		sort.Strings(locked)
		if txn.IsInAggressiveLockingMode() {
			// locks of a statement attempt stay provisional until the attempt is done (kept) or cancelled (released)
			for _, k := range locked {
				t.AggrCur[k] = fu
				delete(t.AggrPrev, k)
			}
			return
		}
		t.Locks = append(t.Locks, LockRec{Keys: locked, ForUpdateTS: fu, Step: w.StepNo})
	case "aggr-start":
		if !t.Pessimistic || txn.IsInAggressiveLockingMode() {
			return
		}
		txn.StartAggressiveLocking()
		t.AggrCur, t.AggrPrev = map[string]uint64{}, map[string]uint64{}
		t.StmtFU, _ = w.forUpdateTS(c) // a statement takes its for-update ts once per attempt
	case "aggr-retry":
		if !txn.IsInAggressiveLockingMode() {
			return
		}
		txn.RetryAggressiveLocking(ctx)
		t.AggrPrev, t.AggrCur = t.AggrCur, map[string]uint64{}
		t.StmtFU, _ = w.forUpdateTS(c)
	case "aggr-done", "aggr-cancel":
		if !txn.IsInAggressiveLockingMode() {
			return
		}
		w.endAggressive(t, txn, s.Op == "aggr-done")
	case "commit":
		if txn.IsInAggressiveLockingMode() {
			w.endAggressive(t, txn, s.AggrDone)
		}
		t.CommitStep[0] = w.StepNo
		cctx := context.WithValue(ctx, util.SessionID, uint64(t.ID+1))
		txn.SetSessionID(uint64(t.ID + 1)) // the committer of a pessimistic transaction exists since its first LockKeys (session id 0)
		t.MaxTSOBeforeCommit = w.Cl.MaxIssued()
		t.CommitCallEv = w.Cl.Trace.Event()
		err := txn.Commit(cctx)
		t.EndEv = w.Cl.Trace.Event()
		w.StepNo++
		t.CommitStep[1] = w.StepNo
		t.Ended = "commit"
		t.CommitClass = ClassifyCommitErr(err)
		t.Told = !c.Net.Dead() // the caller learns Commit's answer only if the process is still alive when it returns
		if err != nil {
			t.CommitErr = err.Error()
			w.Log = append(w.Log, fmt.Sprintf("  commit -> %s: %.160s", t.CommitClass, err.Error()))
		} else {
			t.CommitTS = txn.CommitTS()
		}
		if s.DrainArmed {
			_, w.LastCallSyncRPCs = c.Net.Counts()
			w.Cl.Drain(2*time.Millisecond, 3*time.Second)
			_, w.LastCallRPCs = c.Net.Counts()
		}
		if c.Net.Dead() {
			t.Ended = "killed"
			w.Log = append(w.Log, fmt.Sprintf("  client %d died (told=%v)", c.ID, t.Told))
		}
	case "rollback":
		if txn.IsInAggressiveLockingMode() {
			w.endAggressive(t, txn, s.AggrDone)
		}
		_ = txn.Rollback()
		t.EndEv = w.Cl.Trace.Event()
		t.Ended = "rollback"
		if c.Net.Dead() {
			t.Ended = "killed"
		}
	}
}

// lockFirst acquires the pessimistic lock of a locked DML statement; false = the statement failed.
func (w *World) lockFirst(t *TxnRec, txn *transaction.KVTxn, c *Client, s *Step) bool {
	if !t.Pessimistic || !s.LockFirst {
		return true
	}
	fu, err := w.forUpdateTS(c)
	if err == nil {
		err = txn.LockKeys(context.Background(), kv.NewLockCtx(fu, kv.LockNoWait, time.Now()), []byte(s.Keys[0]))
	}
	if err != nil {
		w.Log = append(w.Log, fmt.Sprintf("  statement refused: %v", err))
		w.settleFailedLock()
		return false
	}
	t.Locks = append(t.Locks, LockRec{Keys: []string{s.Keys[0]}, ForUpdateTS: fu, Step: w.StepNo})
	return true
}

// endAggressive ends the open statement attempt: Done keeps the locks of the current attempt, Cancel releases all.
func (w *World) endAggressive(t *TxnRec, txn *transaction.KVTxn, done bool) {
	if done {
		txn.DoneAggressiveLocking(context.Background())
		var ks []string
		var fu uint64
		for k, f := range t.AggrCur {
			ks = append(ks, k)
			if f > fu {
				fu = f
			}
		}
		sort.Strings(ks)
		if len(ks) > 0 {
			t.Locks = append(t.Locks, LockRec{Keys: ks, ForUpdateTS: fu, Step: w.StepNo})
		}
	} else {
		txn.CancelAggressiveLocking(context.Background())
	}
	t.AggrCur, t.AggrPrev = nil, nil
}

// settleFailedLock gives the asynchronous pessimistic rollback of a failed LockKeys time to finish before
// the next step on unistore (see GenProgram: unistore mishandles a prewrite racing with that rollback).
func (w *World) settleFailedLock() {
	if w.Cl.Backend == Uni {
		w.Cl.Drain(2*time.Millisecond, 3*time.Second)
	}
}

func (w *World) forUpdateTS(c *Client) (uint64, error) {
	return c.Store.CurrentTimestamp(oracle.GlobalTxnScope)
}

// Finish ends every open transaction (rollback), drains background work, lets every lock expire,
// resolves all leftover locks through the last client (the auditor) and returns the final truth.
func (w *World) Finish() (*Truth, error) {
	for _, id := range w.order {
		t := w.Txns[id]
		if t.Ended == "" {
			c := w.Cl.Clients[t.Client]
			if !c.Net.Dead() {
				_ = w.handles[id].Rollback()
				t.EndEv = w.Cl.Trace.Event()
				t.Ended = "rollback"
			} else {
				t.Ended = "killed"
			}
		}
	}
	w.Cl.Drain(3*time.Millisecond, 3*time.Second)
	aud := w.Cl.Clients[len(w.Cl.Clients)-1]
	if w.Auditor != nil {
		aud = w.Auditor
	}
	w.Cl.Expire()
	if err := w.ResolveAll(aud); err != nil {
		return nil, err
	}
	w.Cl.Drain(3*time.Millisecond, 3*time.Second)
	return w.Cl.ReadTruth(aud, w.Keys)
}

// Release ends the client-side life of every transaction that was left open because its client "died": their
// ttl managers would otherwise keep beating (and keep the whole cluster reachable) for up to an hour. It is
// called after the verdict, so the failing requests it triggers on dead clients are of no consequence.
func (w *World) Release() {
	if w.Frozen == nil {
		w.Frozen = w.Cl.Trace.Since(0) // what the oracles judge: nothing sent from here on belongs to the case
	}
	for id, h := range w.handles {
		if t := w.Txns[id]; t != nil && (t.Ended == "" || t.Ended == "killed") && h.Valid() {
			if h.IsInAggressiveLockingMode() {
				h.CancelAggressiveLocking(context.Background())
			}
			_ = h.Rollback()
		}
	}
}

// Leftover is a lock found in the store that belongs to a transaction which has already ended.
type Leftover struct {
	Key   string
	Start uint64
	Type  string
	Txn   int
	Ended string
}

// Settle ends every open transaction by Rollback, then - WITHOUT letting any lock expire - waits until the
// clients' background work has drained and reports the locks that ended transactions still own. A lock that is
// still there after max of polling counts as left behind.
func (w *World) Settle(max time.Duration) ([]Leftover, error) {
	for _, id := range w.order {
		t := w.Txns[id]
		if t.Ended == "" {
			c := w.Cl.Clients[t.Client]
			if c.Net.Dead() {
				t.Ended = "killed"
				continue
			}
			h := w.handles[id]
			if h.IsInAggressiveLockingMode() {
				w.endAggressive(t, h, false)
			}
			_ = h.Rollback()
			t.EndEv = w.Cl.Trace.Event()
			t.Ended = "rollback"
		}
	}
	aud := w.Cl.Clients[len(w.Cl.Clients)-1]
	if w.Auditor != nil {
		aud = w.Auditor
	}
	probe := tikv.StoreProbe{KVStore: aud.Store}
	ended := map[uint64]*TxnRec{}
	for _, t := range w.Txns {
		if t.Ended == "rollback" || (t.Ended == "commit" && t.CommitClass != "undetermined") {
			ended[t.StartTS] = t
		}
	}
	// bounded by polls of >= 20 ms each, not by one wall-clock deadline: a pause or starvation of the whole process
	// then costs one poll instead of the whole allowance (the result feeds a verdict)
	polls := int(max / (20 * time.Millisecond))
	for poll := 0; ; poll++ {
		w.Cl.Drain(3*time.Millisecond, time.Second)
		locks, err := probe.ScanLocks(context.Background(), nil, scanEnd, math.MaxUint64)
		if err != nil {
			return nil, err
		}
		var left []Leftover
		for _, l := range locks {
			if t := ended[l.TxnID]; t != nil {
				left = append(left, Leftover{string(l.Key), l.TxnID, l.LockType.String(), t.ID, t.Ended})
			}
		}
		if len(left) == 0 || poll >= polls {
			return left, nil
		}
		time.Sleep(20 * time.Millisecond)
	}
}

// ResolveAll resolves every lock in the key space through client c (locks are expected to be expired).
func (w *World) ResolveAll(c *Client) error {
	probe := tikv.StoreProbe{KVStore: c.Store}
	for round := 0; round < 30; round++ {
		// refresh the client's notion of "now"
		if _, err := c.Store.CurrentTimestamp(oracle.GlobalTxnScope); err != nil {
			return err
		}
		locks, err := probe.ScanLocks(context.Background(), nil, scanEnd, math.MaxUint64)
		if err != nil {
			return err
		}
		if len(locks) == 0 {
			return nil
		}
		bo := retry.NewBackofferWithVars(context.Background(), 20000, nil)
		if _, err := c.Store.GetLockResolver().ResolveLocks(bo, 0, locks); err != nil {
			w.Log = append(w.Log, fmt.Sprintf("  auditor resolve error: %v", err))
		}
		if w.Cl.Clock == nil {
			time.Sleep(5 * time.Millisecond)
		}
	}
	locks, _ := probe.ScanLocks(context.Background(), nil, scanEnd, math.MaxUint64)
	if len(locks) > 0 {
		return fmt.Errorf("auditor could not resolve %d locks (first: %v)", len(locks), locks[0])
	}
	return nil
}

// scanEnd bounds lock scans: StoreProbe.ScanLocks treats a nil end key as "before every key".
var scanEnd = []byte{0xff, 0xff, 0xff, 0xff}
