package sim

import (
	"fmt"
	"strings"

	"github.com/pingcap/kvproto/pkg/kvrpcpb"
)

func keyErrStr(e *kvrpcpb.KeyError) string {
	switch {
	case e == nil:
		return ""
	case e.Locked != nil:
		return fmt.Sprintf("locked(%s by %d ttl=%d)", e.Locked.Key, e.Locked.LockVersion, e.Locked.LockTtl)
	case e.Conflict != nil:
		return fmt.Sprintf("conflict(%s commit=%d)", e.Conflict.Key, e.Conflict.ConflictCommitTs)
	case e.AlreadyExist != nil:
		return fmt.Sprintf("exists(%s)", e.AlreadyExist.Key)
	case e.Deadlock != nil:
		return "deadlock"
	case e.TxnNotFound != nil:
		return "txn-not-found"
	case e.CommitTsExpired != nil:
		return "commit-ts-expired"
	case e.TxnLockNotFound != nil:
		return "txn-lock-not-found"
	case e.AssertionFailed != nil:
		return "assertion-failed"
	case e.Retryable != "":
		return "retryable(" + e.Retryable + ")"
	case e.Abort != "":
		return "abort(" + e.Abort + ")"
	}
	return "keyerror"
}

// DescribeEntry renders one trace entry compactly.
func DescribeEntry(e *Entry) string {
	var b strings.Builder
	fmt.Fprintf(&b, "#%d c%d call=%d r%d %v ", e.Seq, e.Client, e.CallID, e.RegionID, e.Type)
	if e.Retry {
		b.WriteString("(retry) ")
	}
	switch r := e.Req.(type) {
	case *kvrpcpb.PrewriteRequest:
		fmt.Fprintf(&b, "start=%d primary=%s async=%v 1pc=%v minc=%d fu=%d ttl=%d secs=%q [", r.StartVersion, r.PrimaryLock, r.UseAsyncCommit, r.TryOnePc, r.MinCommitTs, r.ForUpdateTs, r.LockTtl, r.Secondaries)
		for i, m := range r.Mutations {
			pa := ""
			if i < len(r.PessimisticActions) {
				pa = "/" + r.PessimisticActions[i].String()[:2]
			}
			fmt.Fprintf(&b, "%v(%s=%q)%s ", m.Op, m.Key, m.Value, pa)
		}
		b.WriteString("]")
	case *kvrpcpb.CommitRequest:
		fmt.Fprintf(&b, "start=%d commit=%d keys=%q", r.StartVersion, r.CommitVersion, r.Keys)
	case *kvrpcpb.PessimisticLockRequest:
		fmt.Fprintf(&b, "start=%d fu=%d primary=%s wait=%d ret=%v chk=%v onlyIfExists=%v ttl=%d [", r.StartVersion, r.ForUpdateTs, r.PrimaryLock, r.WaitTimeout, r.ReturnValues, r.CheckExistence, r.LockOnlyIfExists, r.LockTtl)
		for _, m := range r.Mutations {
			fmt.Fprintf(&b, "%s/%v ", m.Key, m.Assertion)
		}
		b.WriteString("]")
	case *kvrpcpb.PessimisticRollbackRequest:
		fmt.Fprintf(&b, "start=%d fu=%d keys=%q", r.StartVersion, r.ForUpdateTs, r.Keys)
	case *kvrpcpb.BatchRollbackRequest:
		fmt.Fprintf(&b, "start=%d keys=%q", r.StartVersion, r.Keys)
	case *kvrpcpb.CheckTxnStatusRequest:
		fmt.Fprintf(&b, "primary=%s lockts=%d caller=%d current=%d rollbackIfNotExist=%v forceSync=%v resolvingPess=%v", r.PrimaryKey, r.LockTs, r.CallerStartTs, r.CurrentTs, r.RollbackIfNotExist, r.ForceSyncCommit, r.ResolvingPessimisticLock)
	case *kvrpcpb.CheckSecondaryLocksRequest:
		fmt.Fprintf(&b, "start=%d keys=%q", r.StartVersion, r.Keys)
	case *kvrpcpb.ResolveLockRequest:
		fmt.Fprintf(&b, "start=%d commit=%d keys=%q infos=%v", r.StartVersion, r.CommitVersion, r.Keys, r.TxnInfos)
	case *kvrpcpb.TxnHeartBeatRequest:
		fmt.Fprintf(&b, "start=%d primary=%s ttl=%d", r.StartVersion, r.PrimaryLock, r.AdviseLockTtl)
	case *kvrpcpb.CleanupRequest:
		fmt.Fprintf(&b, "start=%d key=%s current=%d", r.StartVersion, r.Key, r.CurrentTs)
	case *kvrpcpb.GetRequest:
		fmt.Fprintf(&b, "key=%s ts=%d", r.Key, r.Version)
	case *kvrpcpb.BatchGetRequest:
		fmt.Fprintf(&b, "keys=%q ts=%d", r.Keys, r.Version)
	case *kvrpcpb.ScanRequest:
		fmt.Fprintf(&b, "[%q,%q) rev=%v limit=%d ts=%d keyonly=%v", r.StartKey, r.EndKey, r.Reverse, r.Limit, r.Version, r.KeyOnly)
	case *kvrpcpb.ScanLockRequest:
		fmt.Fprintf(&b, "[%q,%q) max=%d", r.StartKey, r.EndKey, r.MaxVersion)
	case *kvrpcpb.FlushRequest:
		fmt.Fprintf(&b, "start=%d primary=%s gen=%d n=%d", r.StartTs, r.PrimaryKey, r.Generation, len(r.Mutations))
	default:
		fmt.Fprintf(&b, "%T", e.Req)
	}
	b.WriteString(" -> ")
	if e.Injected != "" {
		fmt.Fprintf(&b, "<%s> ", e.Injected)
	}
	if e.Err != "" {
		fmt.Fprintf(&b, "ERR(%s) ", e.Err)
	}
	if !e.Delivered && e.Err == "" && e.Resp == nil {
		b.WriteString("(in flight)")
	}
	type regionErrer interface {
		GetRegionError() interface{ String() string }
	}
	switch r := e.Resp.(type) {
	case *kvrpcpb.PrewriteResponse:
		if r.RegionError != nil {
			fmt.Fprintf(&b, "regionErr(%.60s)", r.RegionError.String())
		}
		for _, ke := range r.Errors {
			b.WriteString(keyErrStr(ke) + " ")
		}
		fmt.Fprintf(&b, "minc=%d 1pcts=%d", r.MinCommitTs, r.OnePcCommitTs)
	case *kvrpcpb.CommitResponse:
		if r.RegionError != nil {
			fmt.Fprintf(&b, "regionErr(%.60s)", r.RegionError.String())
		}
		b.WriteString(keyErrStr(r.Error))
		fmt.Fprintf(&b, " commit=%d", r.CommitVersion)
	case *kvrpcpb.PessimisticLockResponse:
		if r.RegionError != nil {
			fmt.Fprintf(&b, "regionErr(%.60s)", r.RegionError.String())
		}
		for _, ke := range r.Errors {
			b.WriteString(keyErrStr(ke) + " ")
		}
		fmt.Fprintf(&b, "values=%q notfounds=%v", r.Values, r.NotFounds)
	case *kvrpcpb.CheckTxnStatusResponse:
		if r.RegionError != nil {
			fmt.Fprintf(&b, "regionErr(%.60s)", r.RegionError.String())
		}
		b.WriteString(keyErrStr(r.Error))
		fmt.Fprintf(&b, " ttl=%d commit=%d action=%v lock=%v", r.LockTtl, r.CommitVersion, r.Action, r.LockInfo != nil)
	case *kvrpcpb.CheckSecondaryLocksResponse:
		b.WriteString(keyErrStr(r.Error))
		fmt.Fprintf(&b, " commit=%d locks=%d", r.CommitTs, len(r.Locks))
	case *kvrpcpb.ResolveLockResponse:
		if r.RegionError != nil {
			fmt.Fprintf(&b, "regionErr(%.60s)", r.RegionError.String())
		}
		b.WriteString(keyErrStr(r.Error))
	case *kvrpcpb.GetResponse:
		if r.RegionError != nil {
			fmt.Fprintf(&b, "regionErr(%.60s)", r.RegionError.String())
		}
		b.WriteString(keyErrStr(r.Error))
		fmt.Fprintf(&b, " value=%q notfound=%v", r.Value, r.NotFound)
	case *kvrpcpb.BatchGetResponse:
		if r.RegionError != nil {
			fmt.Fprintf(&b, "regionErr(%.60s)", r.RegionError.String())
		}
		b.WriteString(keyErrStr(r.Error))
		for _, p := range r.Pairs {
			if p.Error != nil {
				b.WriteString(keyErrStr(p.Error) + " ")
			} else {
				fmt.Fprintf(&b, "%s=%q ", p.Key, p.Value)
			}
		}
	case *kvrpcpb.ScanResponse:
		if r.RegionError != nil {
			fmt.Fprintf(&b, "regionErr(%.60s)", r.RegionError.String())
		}
		b.WriteString(keyErrStr(r.Error))
		for _, p := range r.Pairs {
			if p.Error != nil {
				b.WriteString(keyErrStr(p.Error) + " ")
			} else {
				fmt.Fprintf(&b, "%s=%q ", p.Key, p.Value)
			}
		}
	case *kvrpcpb.ScanLockResponse:
		if r.RegionError != nil {
			fmt.Fprintf(&b, "regionErr(%.60s)", r.RegionError.String())
		}
		for _, l := range r.Locks {
			fmt.Fprintf(&b, "%s@%d(%v) ", l.Key, l.LockVersion, l.LockType)
		}
	case *kvrpcpb.TxnHeartBeatResponse:
		b.WriteString(keyErrStr(r.Error))
		fmt.Fprintf(&b, " ttl=%d", r.LockTtl)
	case *kvrpcpb.BatchRollbackResponse:
		if r.RegionError != nil {
			fmt.Fprintf(&b, "regionErr(%.60s)", r.RegionError.String())
		}
		b.WriteString(keyErrStr(r.Error))
	case *kvrpcpb.PessimisticRollbackResponse:
		if r.RegionError != nil {
			fmt.Fprintf(&b, "regionErr(%.60s)", r.RegionError.String())
		}
		for _, ke := range r.Errors {
			b.WriteString(keyErrStr(ke) + " ")
		}
	case nil:
	default:
		fmt.Fprintf(&b, "%T", e.Resp)
	}
	return b.String()
}

// Describe renders the whole trace; repetitions of a block of 1-4 entries (ignoring sequence numbers) are folded.
func (t *Trace) Describe() string {
	es := t.Since(0)
	full := make([]string, len(es))
	body := make([]string, len(es))
	for i, e := range es {
		full[i] = DescribeEntry(e)
		body[i] = full[i][strings.Index(full[i], " ")+1:]
	}
	var lines []string
	for i := 0; i < len(es); {
		folded := false
		for p := 1; p <= 4 && !folded; p++ {
			k := 1
			for i+(k+1)*p <= len(es) {
				same := true
				for j := 0; j < p; j++ {
					if body[i+j] != body[i+k*p+j] {
						same = false
						break
					}
				}
				if !same {
					break
				}
				k++
			}
			if k >= 3 {
				for j := 0; j < p; j++ {
					l := full[i+j]
					if j == p-1 {
						l += fmt.Sprintf("   (the last %d entries x%d)", p, k)
					}
					lines = append(lines, l)
				}
				i += k * p
				folded = true
			}
		}
		if !folded {
			lines = append(lines, full[i])
			i++
		}
	}
	return strings.Join(lines, "\n")
}
