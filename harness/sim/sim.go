// Package sim is the shared simulation layer of the transactional checks
// (DESIGN.md §2): an in-process cluster (mocktikv with a fully virtual clock, or
// TiDB's unistore for async-commit / 1PC / pipelined flushes), one RPC interposer
// per simulated client (trace, fault plan, gates, kill), a virtual PD/TSO, and
// extraction of the store's raw MVCC truth.
package sim

import (
	"context"
	"fmt"
	"os"
	"path/filepath"
	"reflect"
	"runtime"
	"sort"
	"strings"
	"sync"
	"sync/atomic"
	"time"
	"unsafe"

	"github.com/gogo/protobuf/proto"
	"github.com/pingcap/failpoint"
	"github.com/pingcap/kvproto/pkg/errorpb"
	"github.com/pingcap/kvproto/pkg/kvrpcpb"
	"github.com/pingcap/kvproto/pkg/metapb"
	"github.com/pingcap/tidb/pkg/store/mockstore/unistore"
	"github.com/pkg/errors"
	"github.com/tikv/client-go/v2/config/retry"
	"github.com/tikv/client-go/v2/internal/mockstore/mocktikv"
	"github.com/tikv/client-go/v2/oracle"
	"github.com/tikv/client-go/v2/tikv"
	"github.com/tikv/client-go/v2/tikvrpc"
	"github.com/tikv/client-go/v2/util"
	"github.com/tikv/client-go/v2/util/async"
	pd "github.com/tikv/pd/client"
	"github.com/tikv/pd/client/clients/tso"
	"github.com/tikv/pd/client/constants"
	"github.com/tikv/pd/client/pkg/caller"
)

// Backend selects the store implementation.
type Backend int

const (
	Mock Backend = iota // mocktikv: virtual time, multi-store topology; 2PC only
	Uni                 // unistore: async commit, 1PC, pipelined flush; wall-clock timestamps
)

func (b Backend) String() string {
	if b == Uni {
		return "unistore"
	}
	return "mocktikv"
}

var fpOnce sync.Once

// EnableFailpoints turns on the failpoints every transactional check relies on.
func EnableFailpoints() {
	fpOnce.Do(func() {
		util.EnableFailpoints()
		_ = failpoint.Enable("tikvclient/fastBackoffBySkipSleep", "return")
		_ = failpoint.Enable("tikvclient/injectLiveness", `return("reachable")`)
	})
}

// ---------------------------------------------------------------- virtual PD / TSO

// Clock is the shared virtual clock of a mocktikv cluster (milliseconds + logical counter).
type Clock struct {
	mu      sync.Mutex
	ms      int64
	logical int64
	issued  []uint64
}

// Advance moves virtual time forward.
func (c *Clock) Advance(d time.Duration) {
	c.mu.Lock()
	c.ms += d.Milliseconds()
	c.logical = 0
	c.mu.Unlock()
}

func (c *Clock) next() (int64, int64, uint64) {
	c.mu.Lock()
	defer c.mu.Unlock()
	c.logical++
	ts := oracle.ComposeTS(c.ms, c.logical)
	c.issued = append(c.issued, ts)
	return c.ms, c.logical, ts
}

// MaxIssued returns the largest timestamp handed out so far.
func (c *Clock) MaxIssued() uint64 {
	c.mu.Lock()
	defer c.mu.Unlock()
	if len(c.issued) == 0 {
		return 0
	}
	return c.issued[len(c.issued)-1]
}

// VPD wraps the back-end's PD client. With a Clock (mocktikv) it issues virtual timestamps.
type VPD struct {
	pd.Client
	clock    *Clock
	client   int
	mu       sync.Mutex
	Issued   []uint64 // per-client issuance log
	IssuedEv []int64  // global event counter of each grant
	trace    *Trace
	skewMs   atomic.Int64
}

// MaxIssuedBefore returns the largest timestamp granted to this client before event ev (0 = none).
func (p *VPD) MaxIssuedBefore(ev int64) uint64 {
	p.mu.Lock()
	defer p.mu.Unlock()
	var m uint64
	for i, ts := range p.Issued {
		if p.IssuedEv[i] < ev && ts > m {
			m = ts
		}
	}
	return m
}

func (p *VPD) WithCallerComponent(caller.Component) pd.Client { return p }

func (p *VPD) log(ts uint64) {
	p.mu.Lock()
	p.Issued = append(p.Issued, ts)
	var ev int64
	if p.trace != nil {
		ev = p.trace.Event()
	}
	p.IssuedEv = append(p.IssuedEv, ev)
	p.mu.Unlock()
}

func (p *VPD) GetTS(ctx context.Context) (int64, int64, error) {
	if p.clock != nil {
		ph, lo, ts := p.clock.next()
		p.log(ts)
		return ph, lo, nil
	}
	ph, lo, err := p.Client.GetTS(ctx)
	if err == nil {
		ph += p.skewMs.Load()
		p.log(oracle.ComposeTS(ph, lo))
	}
	return ph, lo, err
}

type vfut struct {
	ph, lo int64
	err    error
}

func (f vfut) Wait() (int64, int64, error) { return f.ph, f.lo, f.err }

func (p *VPD) GetTSAsync(ctx context.Context) tso.TSFuture {
	ph, lo, err := p.GetTS(ctx)
	return vfut{ph, lo, err}
}

// ---------------------------------------------------------------- RPC interposer

// Entry is one RPC crossing the client/store boundary.
type Entry struct {
	Seq       int
	Client    int
	Type      tikvrpc.CmdType
	Req       interface{} // cloned request message
	RegionID  uint64
	Retry     bool        // the request carried Context.IsRetryRequest
	Resp      interface{} // response message (nil if none)
	Err       string      // transport error returned to the client
	Delivered bool        // the store executed the request
	Answered  bool        // the client saw the store's answer
	Injected  string      // fault injected here, if any
	CallID    int         // API call during which it happened (0 = background)
	ExecSeq   int64       // global order in which the store finished executing delivered requests (0 = not delivered)
	SentEv    int64       // global event counter when the client sent the request
	DoneEv    int64       // global event counter when the call returned to the client (0 = still in flight)
}

// Trace is the shared RPC log of a cluster.
type Trace struct {
	mu      sync.Mutex
	Entries []*Entry
	exec    atomic.Int64
	ev      atomic.Int64
}

// Event returns a fresh value of the global event counter (orders RPC sends / returns, TSO grants and API calls).
func (t *Trace) Event() int64 { return t.ev.Add(1) }

func (t *Trace) add(e *Entry) {
	t.mu.Lock()
	e.SentEv = t.ev.Add(1)
	e.Seq = len(t.Entries)
	t.Entries = append(t.Entries, e)
	t.mu.Unlock()
}

// Len returns the number of entries.
func (t *Trace) Len() int {
	t.mu.Lock()
	defer t.mu.Unlock()
	return len(t.Entries)
}

// Since returns a copy of the entries from index i.
func (t *Trace) Since(i int) []*Entry {
	t.mu.Lock()
	defer t.mu.Unlock()
	return append([]*Entry{}, t.Entries[i:]...)
}

// Fault is one planned fault: it applies to the Index-th request (0-based) of type Type issued by the
// client during the armed API call. Type 0 matches any traced type (Index then counts all traced requests).
type Fault struct {
	Type   tikvrpc.CmdType
	Index  int
	Action string // dropRequest | dropResponse | notLeader | epochNotMatch | serverIsBusy | staleCommand | regionNotFound | kill | killAfter | gateBefore | gateAfter
	Gate   func() // for gateBefore/gateAfter
	fired  bool
}

func (f *Fault) String() string { return fmt.Sprintf("%s@%v#%d", f.Action, f.Type, f.Index) }

// Net is the per-client interposer (implements tikv.Client).
type Net struct {
	inner    tikv.Client
	cl       *Cluster
	id       int
	mu       sync.Mutex
	plan     []*Fault
	planTxn  uint64 // typed faults only count / match requests of this transaction (0 = any)
	counts   map[tikvrpc.CmdType]int
	total    int
	callID   int
	dead     bool
	inflight int32
	lastRPC  atomic.Int64 // unix nano of the last traced RPC activity
	burst    int          // traced requests since the last Arm / Disarm
}

// RunawayLimit is the number of requests one API call (or the background work between two calls) of one client may
// issue before the case is declared non-terminating. Back-off sleeps are virtual, so every legitimate call is bounded
// by its back-off budget - a few hundred requests at most; the limit is a count, not a time-out.
const RunawayLimit = 30000

var errRunaway = errors.New("sim: request limit of the call exceeded (runaway)")

func traced(t tikvrpc.CmdType) bool {
	switch t {
	case tikvrpc.CmdStoreSafeTS, tikvrpc.CmdGetHealthFeedback, tikvrpc.CmdBroadcastTxnStatus, tikvrpc.CmdEmpty, tikvrpc.CmdMvccGetByKey, tikvrpc.CmdLockWaitInfo:
		return false
	}
	return true
}

// Arm installs a fault plan for the next API call of this client and resets the request counters.
func (n *Net) Arm(callID int, txnStart uint64, plan []*Fault) {
	n.mu.Lock()
	n.plan, n.planTxn, n.counts, n.total, n.callID = plan, txnStart, map[tikvrpc.CmdType]int{}, 0, callID
	n.burst = 0
	n.mu.Unlock()
}

// NetState is a saved arming state (see Save / Restore).
type NetState struct {
	plan    []*Fault
	planTxn uint64
	counts  map[tikvrpc.CmdType]int
	total   int
	callID  int
}

// Save returns the current arming state so that a nested call on the same client can restore it.
func (n *Net) Save() NetState {
	n.mu.Lock()
	defer n.mu.Unlock()
	return NetState{n.plan, n.planTxn, n.counts, n.total, n.callID}
}

// Restore reinstalls a saved arming state.
func (n *Net) Restore(st NetState) {
	n.mu.Lock()
	n.plan, n.planTxn, n.counts, n.total, n.callID = st.plan, st.planTxn, st.counts, st.total, st.callID
	n.mu.Unlock()
}

// reqTxn extracts the transaction start ts a request belongs to (0 = unknown / none).
func reqTxn(req *tikvrpc.Request) uint64 {
	switch r := req.Req.(type) {
	case *kvrpcpb.PrewriteRequest:
		return r.StartVersion
	case *kvrpcpb.CommitRequest:
		return r.StartVersion
	case *kvrpcpb.PessimisticLockRequest:
		return r.StartVersion
	case *kvrpcpb.PessimisticRollbackRequest:
		return r.StartVersion
	case *kvrpcpb.BatchRollbackRequest:
		return r.StartVersion
	case *kvrpcpb.TxnHeartBeatRequest:
		return r.StartVersion
	case *kvrpcpb.GetRequest:
		return r.Version
	case *kvrpcpb.BatchGetRequest:
		return r.Version
	case *kvrpcpb.ScanRequest:
		return r.Version
	case *kvrpcpb.FlushRequest:
		return r.StartTs
	case *kvrpcpb.CheckTxnStatusRequest:
		return r.CallerStartTs
	case *kvrpcpb.ResolveLockRequest:
		return 0
	}
	return 0
}

// Disarm removes the plan (background RPCs are then traced with call id 0).
func (n *Net) Disarm() {
	n.mu.Lock()
	n.plan, n.planTxn, n.callID = nil, 0, 0
	n.burst = 0
	n.mu.Unlock()
}

// Counts returns how many requests of each type the armed call has issued so far.
func (n *Net) Counts() (map[tikvrpc.CmdType]int, int) {
	n.mu.Lock()
	defer n.mu.Unlock()
	c := map[tikvrpc.CmdType]int{}
	for k, v := range n.counts {
		c[k] = v
	}
	return c, n.total
}

// Dead reports whether the client was killed.
func (n *Net) Dead() bool {
	n.mu.Lock()
	defer n.mu.Unlock()
	return n.dead
}

// Kill makes the client dead from now on.
func (n *Net) Kill() {
	n.mu.Lock()
	n.dead = true
	n.mu.Unlock()
}

func (n *Net) Close() error                                { return nil }
func (n *Net) CloseAddr(addr string) error                 { return nil }
func (n *Net) SetEventListener(l tikv.ClientEventListener) {}
func (n *Net) SendRequestAsync(ctx context.Context, addr string, req *tikvrpc.Request, cb async.Callback[*tikvrpc.Response]) {
	go func() {
		cb.Schedule(n.SendRequest(ctx, addr, req, tikv.ReadTimeoutShort))
	}()
}

var errKilled = errors.New("sim: client is dead (connection lost)")
var errDropped = errors.New("sim: injected transport error")
var errClosed = errors.New("sim: the cluster of this case is closed")

func cloneMsg(m interface{}) interface{} {
	if pm, ok := m.(proto.Message); ok {
		return proto.Clone(pm)
	}
	return m
}

func (n *Net) SendRequest(ctx context.Context, addr string, req *tikvrpc.Request, timeout time.Duration) (*tikvrpc.Response, error) {
	resp, err, e := n.send(ctx, addr, req, timeout)
	if e != nil {
		e.DoneEv = n.cl.Trace.Event()
	}
	return resp, err
}

func (n *Net) send(ctx context.Context, addr string, req *tikvrpc.Request, timeout time.Duration) (*tikvrpc.Response, error, *Entry) {
	if !traced(req.Type) {
		if n.Dead() {
			return nil, errKilled, nil
		}
		n.cl.closeMu.RLock()
		defer n.cl.closeMu.RUnlock()
		if n.cl.closed {
			return nil, errClosed, nil
		}
		resp, err := n.inner.SendRequest(ctx, addr, req, timeout)
		return resp, err, nil
	}
	atomic.AddInt32(&n.inflight, 1)
	n.lastRPC.Store(time.Now().UnixNano())
	defer func() {
		n.lastRPC.Store(time.Now().UnixNano())
		atomic.AddInt32(&n.inflight, -1)
	}()
	n.mu.Lock()
	n.burst++
	if n.burst > RunawayLimit {
		first := n.burst == RunawayLimit+1
		n.mu.Unlock()
		if first {
			es := n.cl.Trace.Since(0)
			if len(es) > 12 {
				es = es[len(es)-12:]
			}
			var tail []string
			for _, e := range es {
				tail = append(tail, DescribeEntry(e))
			}
			n.cl.noteRunaway(fmt.Sprintf("client %d issued more than %d requests within one call (call id %d) without finishing; the last ones:\n    %s", n.id, RunawayLimit, n.callID, strings.Join(tail, "\n    ")))
		}
		return nil, errRunaway, nil
	}
	all := n.total
	n.total++
	// typed faults address the i-th request of a type issued on behalf of the armed transaction: background
	// requests of other transactions of the same client neither count nor match
	own := n.planTxn == 0 || reqTxn(req) == 0 || reqTxn(req) == n.planTxn
	idx := -1
	if own {
		idx = n.counts[req.Type]
		if n.counts != nil {
			n.counts[req.Type]++
		}
	}
	var fault *Fault
	for _, f := range n.plan {
		if !f.fired && ((f.Type == req.Type && f.Index == idx) || (f.Type == 0 && f.Index == all)) {
			f.fired, fault = true, f
			break
		}
	}
	dead := n.dead
	callID := n.callID
	n.mu.Unlock()

	e := &Entry{Client: n.id, Type: req.Type, Req: cloneMsg(req.Req), RegionID: req.Context.GetRegionId(), Retry: req.Context.GetIsRetryRequest(), CallID: callID}
	if dead {
		e.Err, e.Injected = errKilled.Error(), "dead"
		n.cl.Trace.add(e)
		return nil, errKilled, e
	}
	action := ""
	if fault != nil {
		action = fault.Action
		e.Injected = fault.String()
	}
	regionErr := func(re *errorpb.Error) (*tikvrpc.Response, error, *Entry) {
		n.cl.Trace.add(e)
		resp, err := tikvrpc.GenRegionErrorResp(req, re)
		if resp != nil {
			e.Resp, e.Answered = resp.Resp, true
		}
		return resp, err, e
	}
	switch action {
	case "dropRequest":
		e.Err = errDropped.Error()
		n.cl.Trace.add(e)
		return nil, errDropped, e
	case "kill": // the client dies; this request never reaches the store
		n.Kill()
		e.Err = errKilled.Error()
		n.cl.Trace.add(e)
		return nil, errKilled, e
	case "notLeader":
		return regionErr(&errorpb.Error{Message: "injected", NotLeader: &errorpb.NotLeader{RegionId: req.Context.GetRegionId()}})
	case "epochNotMatch":
		return regionErr(&errorpb.Error{Message: "injected", EpochNotMatch: &errorpb.EpochNotMatch{}})
	case "serverIsBusy":
		return regionErr(&errorpb.Error{Message: "injected", ServerIsBusy: &errorpb.ServerIsBusy{Reason: "injected"}})
	case "staleCommand":
		return regionErr(&errorpb.Error{Message: "injected", StaleCommand: &errorpb.StaleCommand{}})
	case "regionNotFound":
		return regionErr(&errorpb.Error{Message: "injected", RegionNotFound: &errorpb.RegionNotFound{RegionId: req.Context.GetRegionId()}})
	case "gateBefore":
		fault.Gate()
	}
	n.cl.Trace.add(e)
	// background goroutines of the client (asynchronous secondary commits, lock clean-up) may still send after the
	// case has ended: once the cluster is closed they get an error instead of reaching a closed store (a closed
	// leveldb / badger dereferences nil and would take the whole test process down)
	n.cl.closeMu.RLock()
	if n.cl.closed {
		n.cl.closeMu.RUnlock()
		e.Err, e.Injected = errClosed.Error(), "closed"
		return nil, errClosed, e
	}
	resp, err := n.inner.SendRequest(ctx, addr, req, timeout)
	n.cl.closeMu.RUnlock()
	e.Delivered = err == nil
	if e.Delivered {
		e.ExecSeq = n.cl.Trace.exec.Add(1)
	}
	if resp != nil {
		e.Resp = resp.Resp
	}
	if err != nil {
		e.Err = err.Error()
	}
	if n.cl.SlowPresentSecondaries && err == nil && resp != nil && req.Type == tikvrpc.CmdCheckSecondaryLocks {
		// owned schedule: of the parallel per-region answers, those that still show locks reach the resolver last
		if r, ok := resp.Resp.(*kvrpcpb.CheckSecondaryLocksResponse); ok && len(r.GetLocks()) > 0 {
			time.Sleep(3 * time.Millisecond)
		}
	}
	if n.cl.RespLevelLocks && err == nil && resp != nil {
		liftLockError(resp)
		e.Resp = resp.Resp
	}
	switch action {
	case "dropResponse":
		e.Err = errDropped.Error()
		return nil, errDropped, e
	case "killAfter": // delivered, but the client dies before it sees the answer
		n.Kill()
		e.Err = errKilled.Error()
		return nil, errKilled, e
	case "gateAfter":
		fault.Gate()
	}
	e.Answered = err == nil
	return resp, err, e
}

// ---------------------------------------------------------------- cluster

// Client is one simulated client process.
type Client struct {
	ID    int
	Store *tikv.KVStore
	Net   *Net
	PD    *VPD
}

// Cluster is one simulated cluster with its clients.
type Cluster struct {
	closeMu    sync.RWMutex
	closed     bool
	Backend    Backend
	Clock      *Clock // shared virtual clock; nil on unistore
	Trace      *Trace
	Clients    []*Client
	mock       *mocktikv.Cluster
	mockCli    *mocktikv.RPCClient
	mvcc       mocktikv.MVCCStore
	uniCli     *unistore.RPCClient
	uni        *unistore.Cluster
	basePD     pd.Client
	stores     []uint64
	calls      int
	runMu      sync.Mutex
	runaway    string
	storePanic string
	// RespLevelLocks makes the store report a lock met by BatchGet / Scan as a response-level error without
	// pairs - the form TiKV uses for in-memory (async-commit prewrite) locks - instead of a per-pair error
	RespLevelLocks bool
	// SlowPresentSecondaries delays every CheckSecondaryLocks answer that still reports locks by 3 ms: the resolver
	// asks the regions of an async-commit transaction's secondaries in parallel, and the order in which it merges
	// "lock missing" and "lock present" answers is otherwise left to the Go scheduler
	SlowPresentSecondaries bool
}

// liftLockError rewrites per-pair lock errors of a BatchGet / Scan response into the response-level form.
func liftLockError(resp *tikvrpc.Response) {
	switch r := resp.Resp.(type) {
	case *kvrpcpb.BatchGetResponse:
		if r.Error != nil || r.RegionError != nil {
			return
		}
		for _, p := range r.Pairs {
			if p.Error != nil && p.Error.Locked != nil {
				c := *r
				c.Error, c.Pairs = p.Error, nil
				resp.Resp = &c
				return
			}
		}
	case *kvrpcpb.ScanResponse:
		if r.Error != nil || r.RegionError != nil {
			return
		}
		for _, p := range r.Pairs {
			if p.Error != nil && p.Error.Locked != nil {
				c := *r
				c.Error, c.Pairs = p.Error, nil
				resp.Resp = &c
				return
			}
		}
	}
}

func (cl *Cluster) noteRunaway(msg string) {
	cl.runMu.Lock()
	if cl.runaway == "" {
		cl.runaway = msg
	}
	cl.runMu.Unlock()
}

// StorePanic reports the first panic inside the store implementation ("" = none): the case is void then.
func (cl *Cluster) StorePanic() string {
	cl.runMu.Lock()
	defer cl.runMu.Unlock()
	return cl.storePanic
}

// Runaway reports the first call that exceeded RunawayLimit ("" = none).
func (cl *Cluster) Runaway() string {
	cl.runMu.Lock()
	defer cl.runMu.Unlock()
	return cl.runaway
}

type uniWrapper struct {
	*unistore.RPCClient
	cl *Cluster
}

// SendRequest shields the test process from panics inside unistore (e.g. its prewrite dereferences a missing
// lock when a for-update-ts constraint is attached): the request fails, the first panic is kept for the report.
func (c *uniWrapper) SendRequest(ctx context.Context, addr string, req *tikvrpc.Request, timeout time.Duration) (resp *tikvrpc.Response, err error) {
	defer func() {
		if r := recover(); r != nil {
			c.cl.runMu.Lock()
			if c.cl.storePanic == "" {
				c.cl.storePanic = fmt.Sprintf("unistore panicked while executing %v: %v", req.Type, r)
			}
			c.cl.runMu.Unlock()
			resp, err = nil, errors.Errorf("sim: store panicked: %v", r)
		}
	}()
	return c.RPCClient.SendRequest(ctx, addr, req, timeout)
}

func (c *uniWrapper) SendRequestAsync(ctx context.Context, addr string, req *tikvrpc.Request, cb async.Callback[*tikvrpc.Response]) {
	go func() { cb.Schedule(c.SendRequest(ctx, addr, req, tikv.ReadTimeoutShort)) }()
}
func (c *uniWrapper) SetEventListener(tikv.ClientEventListener) {}

// NewCluster creates a cluster with nStores stores (mocktikv only; unistore has one) and nClients clients.
func NewCluster(b Backend, nStores, nClients int) (*Cluster, error) {
	EnableFailpoints()
	cl := &Cluster{Backend: b, Trace: &Trace{}}
	var base tikv.Client
	switch b {
	case Mock:
		c, cluster, pdc, err := mocktikv.NewTiKVAndPDClient("", nil)
		if err != nil {
			return nil, err
		}
		cl.mock, cl.mockCli, cl.basePD, cl.mvcc = cluster, c, pdc, c.MvccStore
		if nStores <= 1 {
			s, _, _ := mocktikv.BootstrapWithSingleStore(cluster)
			cl.stores = []uint64{s}
		} else {
			ss, _, _, _ := mocktikv.BootstrapWithMultiStores(cluster, nStores)
			cl.stores = ss
		}
		cl.Clock = &Clock{ms: 1_000_000}
		base = c
	case Uni:
		c, pdc, cluster, err := unistore.New("", nil, constants.NullKeyspaceID, nil)
		if err != nil {
			return nil, err
		}
		unistore.BootstrapWithSingleStore(cluster)
		cl.uniCli, cl.uni, cl.basePD = c, cluster, pdc
		// unistore draws min-commit timestamps from its own wall-clock TSO, so the clients must use that same
		// source (no virtual clock); lock expiry is simulated by skewing the clients' clock forward (Expire)
		base = &uniWrapper{c, cl}
	}
	for i := 0; i < nClients; i++ {
		n := &Net{inner: base, cl: cl, id: i}
		v := &VPD{Client: cl.basePD, clock: cl.Clock, client: i, trace: cl.Trace}
		store, err := tikv.NewTestTiKVStore(n, v, nil, nil, 0, tikv.WithUpdateInterval(time.Hour))
		if err != nil {
			return nil, err
		}
		// the cached GC safe point counts as fresh for the whole case: a case that is stalled for 100 s (memory
		// pressure, a loaded machine) must not make every read fail with "start timestamp may fall behind safe point"
		tikv.StoreProbe{KVStore: store}.UpdateTxnSafePointCache(0, time.Now().Add(24*time.Hour))
		cl.Clients = append(cl.Clients, &Client{ID: i, Store: store, Net: n, PD: v})
	}
	return cl, nil
}

// Close releases the cluster.
func (cl *Cluster) Close() {
	for _, c := range cl.Clients {
		c.Net.Disarm()
		_ = c.Store.Close()
	}
	cl.closeMu.Lock() // waits for requests inside the store
	cl.closed = true
	cl.closeMu.Unlock()
	if cl.mockCli != nil {
		CloseMock(cl.mockCli)
	}
	if cl.uniCli != nil {
		_ = cl.uniCli.Close()
		closeUniDB(cl.uniCli)
	}
}

// Expire makes every lock written so far look expired to every client: the virtual clock advances by an
// hour, or (unistore) every client's clock is skewed an hour ahead. On unistore no commit may follow.
func (cl *Cluster) Expire() {
	if cl.Clock != nil {
		cl.Clock.Advance(time.Hour)
	} else {
		for _, c := range cl.Clients {
			c.PD.skewMs.Add(time.Hour.Milliseconds())
		}
	}
	for i := range cl.Clients {
		cl.refreshClock(i)
	}
}

// refreshClock lets a client's oracle notice the new time (its low-resolution timestamp, which the lock
// resolver uses to judge expiry, only moves when a timestamp is fetched).
func (cl *Cluster) refreshClock(client int) {
	c := cl.Clients[client]
	if !c.Net.Dead() {
		_, _ = c.Store.CurrentTimestamp(oracle.GlobalTxnScope)
	}
}

// ExpireFor makes every lock written so far look expired to one client only (a resolver whose clock runs
// ahead): on mocktikv the shared virtual clock advances (time simply passes for everybody), on unistore only
// that client's clock is skewed, and it must not commit afterwards.
func (cl *Cluster) ExpireFor(client int) {
	if cl.Clock != nil {
		cl.Clock.Advance(time.Hour)
	} else {
		cl.Clients[client%len(cl.Clients)].PD.skewMs.Add(time.Hour.Milliseconds())
	}
	cl.refreshClock(client % len(cl.Clients))
}

// MaxIssued returns the largest timestamp any client has been granted so far.
func (cl *Cluster) MaxIssued() uint64 {
	var m uint64
	for _, c := range cl.Clients {
		if x := c.PD.MaxIssuedBefore(1 << 62); x > m {
			m = x
		}
	}
	return m
}

// GoroutineDump returns the stacks of all goroutines that are inside the harness or client-go (for hang reports).
func GoroutineDump() string {
	buf := make([]byte, 4<<20)
	buf = buf[:runtime.Stack(buf, true)]
	var first, keep []string
	for _, g := range strings.Split(string(buf), "\n\n") {
		if strings.Contains(g, "sim.GoroutineDump") {
			continue
		}
		lines := strings.Split(g, "\n")
		if len(lines) > 40 {
			lines = lines[:40]
		}
		switch {
		case strings.Contains(g, "/verif/harness/"):
			first = append(first, strings.Join(lines, "\n"))
		case strings.Contains(g, "client-go/v2/txnkv") || strings.Contains(g, "unistore") || strings.Contains(g, "mocktikv"):
			keep = append(keep, strings.Join(lines, "\n"))
		}
	}
	keep = append(first, keep...)
	if len(keep) > 10 {
		keep = keep[:10]
	}
	return strings.Join(keep, "\n\n")
}

// CloseMock closes a mocktikv client together with ALL leveldb instances of its store: RPCClient.Close only
// closes the default column family, the instances created for other column families (raw KV) would keep their
// 4 MB memtables alive through their background goroutines.
func CloseMock(c *mocktikv.RPCClient) {
	defer func() { _ = recover() }()
	if m, ok := c.MvccStore.(*mocktikv.MVCCLevelDB); ok {
		f := reflect.ValueOf(m).Elem().FieldByName("dbs")
		dbs := reflect.NewAt(f.Type(), unsafe.Pointer(f.UnsafeAddr())).Elem()
		for _, k := range dbs.MapKeys() {
			if k.String() != "test_cf" {
				if cl := dbs.MapIndex(k).MethodByName("Close"); cl.IsValid() {
					cl.Call(nil)
				}
			}
		}
	}
	_ = c.Close()
}

// closeUniDB closes the badger DB of a stopped unistore instance. unistore's own Close stops the server and
// removes the directory but never closes the DB, whose background goroutines then keep ~9 MB of arenas alive per
// instance - thousands of cases per process would not fit into memory. The DB is only reachable through
// unexported fields, hence reflection.
func closeUniDB(c *unistore.RPCClient) {
	defer func() { _ = recover() }()
	field := func(v reflect.Value, name string) reflect.Value {
		f := v.Elem().FieldByName(name)
		return reflect.NewAt(f.Type(), unsafe.Pointer(f.UnsafeAddr())).Elem()
	}
	svr := field(reflect.ValueOf(c), "usSvr")
	store := field(svr, "mvccStore")
	db := field(store, "db")
	if m := db.MethodByName("Close"); m.IsValid() {
		m.Call(nil)
	}
	// closing the DB writes its files back into the directory that unistore's Close has just removed (17 MB per
	// instance, which filled the disk over a long run): remove it again
	if path := field(reflect.ValueOf(c), "path").String(); strings.HasPrefix(path, filepath.Join(os.TempDir(), "tidb-unistore-temp")) {
		_ = os.RemoveAll(path)
	}
}

// NextCall returns a fresh API call id.
func (cl *Cluster) NextCall() int { cl.calls++; return cl.calls }

// SplitAt splits the region containing key at key (no-op if key already is a boundary).
func (cl *Cluster) SplitAt(key string) {
	switch cl.Backend {
	case Mock:
		meta, _, _, _ := cl.mock.GetRegionByKey(mocktikv.NewMvccKey([]byte(key))) // the cluster indexes encoded keys
		if meta == nil || string(mocktikv.MvccKey(meta.StartKey).Raw()) == key {
			return
		}
		newID := cl.mock.AllocID()
		peerIDs := cl.mock.AllocIDs(len(meta.Peers))
		_, leader := cl.mock.GetRegion(meta.Id)
		lp := peerIDs[0]
		for i, p := range meta.Peers {
			if p.Id == leader {
				lp = peerIDs[i]
			}
		}
		ver := meta.RegionEpoch.GetVersion()
		cl.mock.Split(meta.Id, newID, []byte(key), peerIDs, lp)
		for _, r := range cl.mock.GetAllRegions() {
			if r.Meta.Id == meta.Id || r.Meta.Id == newID {
				r.Meta.RegionEpoch = &metapb.RegionEpoch{ConfVer: meta.RegionEpoch.GetConfVer(), Version: ver + 1}
			}
		}
	case Uni:
		enc := []byte(mocktikv.NewMvccKey([]byte(key))) // unistore indexes memcomparable-encoded keys as well
		r, _, _, _ := cl.uni.GetRegionByKey(enc)
		if r == nil || string(r.StartKey) == string(enc) {
			return
		}
		newID := cl.uni.AllocID()
		peerIDs := cl.uni.AllocIDs(len(r.Peers))
		cl.uni.Split(r.Id, newID, []byte(key), peerIDs, peerIDs[0])
	}
}

// TransferLeader moves the leader of the region holding key to another store (mocktikv, multi-store only).
func (cl *Cluster) TransferLeader(key string, which int) {
	if cl.Backend != Mock || len(cl.stores) < 2 {
		return
	}
	meta, _, _, _ := cl.mock.GetRegionByKey(mocktikv.NewMvccKey([]byte(key)))
	if meta == nil {
		return
	}
	p := meta.Peers[which%len(meta.Peers)]
	cl.mock.ChangeLeader(meta.Id, p.Id)
}

// ---------------------------------------------------------------- MVCC truth

// Version is one committed record of a key.
type Version struct {
	Commit, Start uint64
	Kind          string // put | del | lock | rollback
	Value         []byte
}

// LockInfo is a lock left on a key.
type LockInfo struct {
	Key     string
	Start   uint64
	Primary string
	Kind    string
}

// Truth is the raw MVCC state of a set of keys.
type Truth struct {
	Versions map[string][]Version // newest first
	Locks    map[string]*LockInfo
}

func kindOf(op kvrpcpb.Op) string {
	switch op {
	case kvrpcpb.Op_Put, kvrpcpb.Op_Insert:
		return "put"
	case kvrpcpb.Op_Del:
		return "del"
	case kvrpcpb.Op_Lock:
		return "lock"
	case kvrpcpb.Op_Rollback:
		return "rollback"
	case kvrpcpb.Op_PessimisticLock:
		return "pessimistic"
	}
	return op.String()
}

// ReadTruth fetches the MVCC records of keys through client c (MvccGetByKey RPCs, untraced).
func (cl *Cluster) ReadTruth(c *Client, keys []string) (*Truth, error) {
	t := &Truth{Versions: map[string][]Version{}, Locks: map[string]*LockInfo{}}
	for _, k := range keys {
		bo := retry.NewBackofferWithVars(context.Background(), 20000, nil)
		var info *kvrpcpb.MvccInfo
		for attempt := 0; ; attempt++ {
			loc, err := c.Store.GetRegionCache().LocateKey(bo, []byte(k))
			if err != nil {
				return nil, err
			}
			req := tikvrpc.NewRequest(tikvrpc.CmdMvccGetByKey, &kvrpcpb.MvccGetByKeyRequest{Key: []byte(k)})
			resp, err := c.Store.SendReq(bo, req, loc.Region, time.Second)
			if err != nil {
				return nil, err
			}
			re, err := resp.GetRegionError()
			if err != nil {
				return nil, err
			}
			if re != nil {
				if attempt > 20 {
					return nil, errors.Errorf("truth: region error %v", re)
				}
				continue
			}
			r := resp.Resp.(*kvrpcpb.MvccGetByKeyResponse)
			if r.Error != "" {
				return nil, errors.New(r.Error)
			}
			info = r.Info
			break
		}
		if info == nil {
			continue
		}
		if l := info.Lock; l != nil {
			t.Locks[k] = &LockInfo{Key: k, Start: l.StartTs, Primary: string(l.Primary), Kind: kindOf(l.Type)}
		}
		vals := map[uint64][]byte{}
		for _, v := range info.Values {
			vals[v.StartTs] = v.Value
		}
		for _, w := range info.Writes {
			v := Version{Commit: w.CommitTs, Start: w.StartTs, Kind: kindOf(w.Type), Value: w.ShortValue}
			if v.Kind == "put" && len(v.Value) == 0 {
				v.Value = vals[w.StartTs]
			}
			t.Versions[k] = append(t.Versions[k], v)
		}
		sort.SliceStable(t.Versions[k], func(i, j int) bool { return t.Versions[k][i].Commit > t.Versions[k][j].Commit })
	}
	return t, nil
}

// ValueAt returns the value visible at ts (newest put/del with commit <= ts).
func (t *Truth) ValueAt(key string, ts uint64) ([]byte, bool) {
	for _, v := range t.Versions[key] {
		if v.Commit <= ts && (v.Kind == "put" || v.Kind == "del") {
			if v.Kind == "put" {
				return v.Value, true
			}
			return nil, false
		}
	}
	return nil, false
}

// Committed returns the non-rollback record written by start on key, if any.
func (t *Truth) Committed(key string, start uint64) *Version {
	for i, v := range t.Versions[key] {
		if v.Start == start && v.Kind != "rollback" {
			return &t.Versions[key][i]
		}
	}
	return nil
}

// Describe renders the truth of keys for failure messages.
func (t *Truth) Describe(keys []string) string {
	if t == nil {
		return "<no truth: the case ended before recovery>"
	}
	var sb strings.Builder
	for _, k := range keys {
		fmt.Fprintf(&sb, "%s:", k)
		if l := t.Locks[k]; l != nil {
			fmt.Fprintf(&sb, "LOCK(%s@%d primary=%s)", l.Kind, l.Start, l.Primary)
		}
		for _, v := range t.Versions[k] {
			fmt.Fprintf(&sb, "[%s c=%d s=%d %q]", v.Kind, v.Commit, v.Start, v.Value)
		}
		sb.WriteString(" ")
	}
	return sb.String()
}

// Drain waits until no traced RPC of any client has been in flight for quiet (KVStore.WaitGroup also counts
// the store's permanent loops, so it cannot be used). It returns false if max elapsed first. Checks that
// judge "after background work has drained" poll their condition on top of this (see World.Finish).
func (cl *Cluster) Drain(quiet, max time.Duration) bool {
	deadline := time.Now().Add(max)
	for time.Now().Before(deadline) {
		busy := false
		for _, c := range cl.Clients {
			if atomic.LoadInt32(&c.Net.inflight) > 0 || time.Since(time.Unix(0, c.Net.lastRPC.Load())) < quiet {
				busy = true
			}
		}
		if !busy {
			return true
		}
		time.Sleep(quiet / 4)
	}
	return false
}
