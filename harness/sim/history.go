package sim

import (
	"bytes"
	"fmt"
	"sort"
	"strings"

	"github.com/pingcap/kvproto/pkg/kvrpcpb"
	"github.com/pkg/errors"
	tikverr "github.com/tikv/client-go/v2/error"
	"github.com/tikv/client-go/v2/tikvrpc"
)

// ReadRec is one observed read.
type ReadRec struct {
	API     string // get | batchget | iter | iterrev | lock
	Key     string
	Value   []byte
	Found   bool
	AtTS    uint64 // snapshot ts of the read (start ts, or for-update ts for locking reads)
	OwnSeen bool   // the txn had written the key before (own buffered write expected)
	Step    int
}

// WriteRec is one buffered write in program order.
type WriteRec struct {
	Key    string
	Op     string // set | insert | delete
	Value  []byte
	Step   int
	Assert string // assertion flag put on the key with this write ("", "exist", "notexist")
}

// LockRec is one successful pessimistic lock call.
type LockRec struct {
	Keys        []string
	ForUpdateTS uint64
	Step        int
}

// TxnRec is everything the harness observed about one transaction (never read from client internals
// except start/commit ts getters of the public API).
type TxnRec struct {
	ID          int
	Client      int
	Pessimistic bool
	Async       bool
	OnePC       bool
	Causal      bool
	AssertLevel int
	StartTS     uint64
	BeginStep   int
	Reads       []ReadRec
	Writes      []WriteRec
	Locks       []LockRec
	Ended       string // "" | commit | rollback | killed
	Told        bool   // Commit returned while the client was still alive
	CommitErr   string
	CommitClass string // ok | undetermined | key-exists | write-conflict | definite
	CommitTS    uint64
	CommitStep  [2]int // driver step before / after Commit returned
	ModeUsed    string // 2pc | async | 1pc (from the commit callback info when available)
	// provisional locks of an open aggressive-locking attempt (current / previous attempt)
	AggrCur, AggrPrev map[string]uint64
	StmtFU            uint64 // for-update ts of the current statement attempt
	// for the request-stream monitor (C04)
	CommitCallEv       int64  // global event counter just before Commit was called
	EndEv              int64  // ... just after Commit / Rollback returned (0 = never ended)
	MaxTSOBeforeCommit uint64 // largest timestamp any client had been granted when Commit was called
}

// ClassifyCommitErr maps a Commit error to the classes the properties speak about.
func ClassifyCommitErr(err error) string {
	if err == nil {
		return "ok"
	}
	if errors.Is(err, tikverr.ErrResultUndetermined) || strings.Contains(err.Error(), tikverr.ErrResultUndetermined.Error()) {
		return "undetermined"
	}
	var ke *tikverr.ErrKeyExist
	if errors.As(err, &ke) || tikverr.IsErrKeyExist(err) {
		return "key-exists"
	}
	var wc *tikverr.ErrWriteConflict
	if errors.As(err, &wc) || tikverr.IsErrWriteConflict(err) {
		return "write-conflict"
	}
	return "definite"
}

// Effective returns the last buffered write per key, and the keys whose insert was deleted again.
func (t *TxnRec) Effective() (last map[string]WriteRec, insertedThenDeleted map[string]bool) {
	last = map[string]WriteRec{}
	insertedThenDeleted = map[string]bool{}
	inserted := map[string]bool{}
	for _, w := range t.Writes {
		if w.Op == "insert" {
			inserted[w.Key] = true
		}
		if w.Op == "delete" && inserted[w.Key] {
			insertedThenDeleted[w.Key] = true
		}
		if w.Op != "delete" {
			delete(insertedThenDeleted, w.Key)
			if w.Op == "set" && inserted[w.Key] {
				// a later plain set over an insert keeps the insert declaration (flags persist)
			}
		}
		last[w.Key] = w
	}
	return
}

// LockedKeys returns every key the txn successfully locked pessimistically.
func (t *TxnRec) LockedKeys() map[string]uint64 {
	m := map[string]uint64{}
	for _, l := range t.Locks {
		for _, k := range l.Keys {
			if l.ForUpdateTS > m[k] {
				m[k] = l.ForUpdateTS
			}
		}
	}
	return m
}

// Violation is one broken rule.
type Violation struct {
	Rule string
	Msg  string
	// Known is the key of the known-finding class this violation belongs to ("" = none)
	Known string
}

func (v Violation) String() string { return v.Rule + ": " + v.Msg }

// Outcome decided from the truth.
type Outcome struct {
	Committed bool
	CommitTS  uint64
}

// OutcomeOf derives a transaction's outcome from the final truth and checks atomicity (A1).
func OutcomeOf(t *TxnRec, truth *Truth) (Outcome, []Violation) {
	var vs []Violation
	last, itd := t.Effective()
	var out Outcome
	var missing, present []string
	for k, w := range last {
		if itd[k] && w.Op == "delete" {
			continue // check-only / lock-conversion key: may leave a lock-type record or nothing
		}
		if v := truth.Committed(k, t.StartTS); v != nil {
			present = append(present, k)
			if out.Committed && out.CommitTS != v.Commit {
				vs = append(vs, Violation{Rule: "atomicity", Msg: fmt.Sprintf("txn %d (start %d) committed key %s at %d but another key at %d", t.ID, t.StartTS, k, v.Commit, out.CommitTS)})
			}
			out.Committed, out.CommitTS = true, v.Commit
			wantKind := "put"
			if w.Op == "delete" {
				wantKind = "del"
			}
			if v.Kind != wantKind || (wantKind == "put" && !bytes.Equal(v.Value, w.Value)) {
				vs = append(vs, Violation{Rule: "durability", Msg: fmt.Sprintf("txn %d key %s: store has %s %q, the txn's last write was %s %q", t.ID, k, v.Kind, v.Value, w.Op, w.Value)})
			}
		} else {
			missing = append(missing, k)
		}
	}
	// lock-only keys tell the outcome too
	if !out.Committed {
		for k := range t.LockedKeys() {
			if _, written := last[k]; written {
				continue
			}
			if v := truth.Committed(k, t.StartTS); v != nil {
				out.Committed, out.CommitTS = true, v.Commit
			}
		}
	}
	sort.Strings(missing)
	sort.Strings(present)
	if len(present) > 0 && len(missing) > 0 {
		vs = append(vs, Violation{Rule: "atomicity", Msg: fmt.Sprintf("txn %d (start %d) is committed on %v but not on %v", t.ID, t.StartTS, present, missing)})
	}
	return out, vs
}

// CheckHistory evaluates the history rules of C01 (R-ack, R-read, R-ww, R-lock, R-insert, R-ext, R-nolock)
// over the recorded transactions and the final truth. keys = all keys of the case.
func CheckHistory(txns []*TxnRec, truth *Truth, keys []string, rules map[string]bool, entries ...*Entry) []Violation {
	var vs []Violation
	on := func(r string) bool { return rules == nil || rules[r] }
	outcomes := map[int]Outcome{}
	for _, t := range txns {
		o, v := OutcomeOf(t, truth)
		outcomes[t.ID] = o
		vs = append(vs, v...)
	}
	for _, t := range txns {
		o := outcomes[t.ID]
		// R-ack
		if on("ack") && (t.Ended == "commit" || (t.Ended == "killed" && t.Told)) {
			switch t.CommitClass {
			case "ok":
				last, itd := t.Effective()
				need := false
				for k, w := range last {
					if !(itd[k] && w.Op == "delete") {
						need = true
					}
				}
				if need && !o.Committed {
					vs = append(vs, Violation{Rule: "ack", Msg: fmt.Sprintf("Commit of txn %d (start %d) returned nil but its writes are not in the store", t.ID, t.StartTS)})
				}
				if o.Committed && t.CommitTS != 0 && o.CommitTS != t.CommitTS {
					vs = append(vs, Violation{Rule: "ack", Msg: fmt.Sprintf("txn %d reports commit ts %d but the store committed it at %d", t.ID, t.CommitTS, o.CommitTS)})
				}
			case "undetermined":
			default:
				if o.Committed {
					vs = append(vs, Violation{Rule: "ack", Msg: fmt.Sprintf("Commit of txn %d (start %d) failed definitely (%s: %s) but the txn is committed at %d", t.ID, t.StartTS, t.CommitClass, t.CommitErr, o.CommitTS)})
				}
			}
		}
		if on("ack") && t.Ended == "rollback" && o.Committed {
			vs = append(vs, Violation{Rule: "ack", Msg: fmt.Sprintf("txn %d was rolled back by its owner but is committed at %d", t.ID, o.CommitTS)})
		}
		// R-read
		if on("read") {
			for _, r := range t.Reads {
				if r.OwnSeen {
					continue // compared against the txn's own buffer by the actor
				}
				want, ok := truth.ValueAt(r.Key, r.AtTS)
				// the reader's own committed records are not part of its snapshot
				if ok != r.Found || (ok && !bytes.Equal(want, r.Value)) {
					vs = append(vs, Violation{Rule: "read", Msg: fmt.Sprintf("txn %d (start %d) %s(%s) at ts %d returned (%q,found=%v) but the newest version committed at or below that ts is (%q,found=%v); versions: %s",
						t.ID, t.StartTS, r.API, r.Key, r.AtTS, r.Value, r.Found, want, ok, truth.Describe([]string{r.Key}))})
				}
			}
		}
		// R-lock: nothing commits on a locked key between the lock's for-update ts and the locker's commit
		// (an optimistic transaction's LockKeys protects the key from its start ts on)
		if on("lock") && o.Committed {
			for k, fu := range t.LockedKeys() {
				for _, v := range truth.Versions[k] {
					if v.Start != t.StartTS && v.Kind != "rollback" && v.Commit > fu && v.Commit < o.CommitTS {
						vs = append(vs, Violation{Rule: "lock", Msg: fmt.Sprintf("txn %d locked key %s at for-update ts %d and committed at %d, yet txn@%d committed on it at %d in between", t.ID, k, fu, o.CommitTS, v.Start, v.Commit)})
					}
				}
			}
		}
		// R-insert
		if on("insert") {
			last, itd := t.Effective()
			inserted := map[string]bool{}
			for _, w := range t.Writes {
				if w.Op == "insert" {
					inserted[w.Key] = true
				}
			}
			if o.Committed {
				for k := range inserted {
					_ = last
					_ = itd
					// value visible just below the commit point, disregarding the txn itself
					for _, v := range truth.Versions[k] {
						if v.Start == t.StartTS || v.Commit >= o.CommitTS || (v.Kind != "put" && v.Kind != "del") {
							continue
						}
						if v.Kind == "put" {
							viol := Violation{Rule: "insert", Msg: fmt.Sprintf("txn %d declared key %s as an insert and committed at %d although the key had value %q (committed at %d) at that point", t.ID, k, o.CommitTS, v.Value, v.Commit)}
							if w, ok := last[k]; ok && itd[k] && w.Op == "delete" && !t.Pessimistic && createdAfterCheck(entries, t.StartTS, v.Start, k) {
								viol.Known = KnownInsertDeleteWindow
								viol.Msg += " [the insert was deleted again, so the key is only checked (Op_CheckNotExists, no lock); the other transaction prewrote the key after that check had passed]"
							}
							vs = append(vs, viol)
						}
						break
					}
				}
			}
		}
	}
	// R-ww
	if on("ww") {
		for i, a := range txns {
			for _, b := range txns[i+1:] {
				oa, ob := outcomes[a.ID], outcomes[b.ID]
				if !oa.Committed || !ob.Committed {
					continue
				}
				la, ia := a.Effective()
				lb, ib := b.Effective()
				for k, wa := range la {
					wb, ok := lb[k]
					if !ok || (ia[k] && wa.Op == "delete") || (ib[k] && wb.Op == "delete") {
						continue
					}
					// a pessimistic txn that locked the key is protected from the lock's for-update ts on (the
					// statement's locking clause); otherwise the interval starts at the start ts
					sa, sb := a.StartTS, b.StartTS
					if a.Pessimistic {
						fu, ok := a.LockedKeys()[k]
						if !ok {
							continue // a pessimistic txn is protected only on keys it locked (caller contract; TiKV runs no conflict check on the others)
						}
						sa = fu
					}
					if b.Pessimistic {
						fu, ok := b.LockedKeys()[k]
						if !ok {
							continue
						}
						sb = fu
					}
					if sa < ob.CommitTS && sb < oa.CommitTS {
						vs = append(vs, Violation{Rule: "ww", Msg: fmt.Sprintf("txns %d [%d,%d] and %d [%d,%d] overlap and both committed a write to key %s", a.ID, a.StartTS, oa.CommitTS, b.ID, b.StartTS, ob.CommitTS, k)})
					}
				}
			}
		}
	}
	// R-ext
	if on("ext") {
		for _, a := range txns {
			oa := outcomes[a.ID]
			if a.CommitClass != "ok" || !oa.Committed {
				continue
			}
			for _, b := range txns {
				if b.ID != a.ID && a.CommitStep[1] < b.BeginStep && b.StartTS < oa.CommitTS {
					vs = append(vs, Violation{Rule: "ext", Msg: fmt.Sprintf("txn %d was acknowledged committed (commit ts %d) before txn %d began, but that one got start ts %d", a.ID, oa.CommitTS, b.ID, b.StartTS)})
				}
			}
		}
	}
	// R-nolock
	if on("nolock") {
		for _, k := range keys {
			if l := truth.Locks[k]; l != nil {
				vs = append(vs, Violation{Rule: "nolock", Msg: fmt.Sprintf("key %s still carries a %s lock of txn@%d after recovery", k, l.Kind, l.Start)})
			}
		}
	}
	return vs
}

// ModeOf tells which commit path a transaction's prewrites took, judged from the RPC trace:
// "none" (no prewrite), "2pc", "async", "1pc", or "async>2pc" / "1pc>2pc" / "1pc>async" when the path fell back.
func ModeOf(entries []*Entry, startTS uint64) string {
	first, last := "", ""
	for _, e := range entries {
		if e.Type != tikvrpc.CmdPrewrite {
			continue
		}
		req, ok := e.Req.(*kvrpcpb.PrewriteRequest)
		if !ok || req.StartVersion != startTS {
			continue
		}
		m := "2pc"
		if req.TryOnePc {
			m = "1pc"
			if resp, ok := e.Resp.(*kvrpcpb.PrewriteResponse); ok && e.Answered && resp.OnePcCommitTs == 0 && len(resp.Errors) == 0 && resp.RegionError == nil {
				m = "2pc"
				if req.UseAsyncCommit && resp.MinCommitTs != 0 {
					m = "async"
				}
			}
		} else if req.UseAsyncCommit {
			m = "async"
			if resp, ok := e.Resp.(*kvrpcpb.PrewriteResponse); ok && e.Answered && resp.MinCommitTs == 0 && len(resp.Errors) == 0 && resp.RegionError == nil {
				m = "2pc"
			}
		}
		if first == "" {
			first = m
			if req.TryOnePc {
				first = "1pc"
			} else if req.UseAsyncCommit {
				first = "async"
			}
		}
		last = m
	}
	if first == "" {
		return "none"
	}
	if first != last {
		return first + ">" + last
	}
	return first
}

// KnownInsertDeleteWindow is the known-finding class of R-insert: an optimistic insert-then-delete is sent as a
// non-locking existence check, so a key created after the check passed and before the commit goes unnoticed.
const KnownInsertDeleteWindow = "C01/insert-delete-check-window"

// createdAfterCheck reports whether the transaction `other` first prewrote key after txn `start`'s successful
// Op_CheckNotExists on key had been executed by the store (judged by the store-side execution order).
func createdAfterCheck(entries []*Entry, start, other uint64, key string) bool {
	var check, create int64
	for _, e := range entries {
		if e.Type != tikvrpc.CmdPrewrite || !e.Delivered {
			continue
		}
		req, ok := e.Req.(*kvrpcpb.PrewriteRequest)
		if !ok {
			continue
		}
		resp, _ := e.Resp.(*kvrpcpb.PrewriteResponse)
		if resp == nil || len(resp.Errors) > 0 || resp.RegionError != nil {
			continue
		}
		for _, m := range req.Mutations {
			if string(m.Key) != key {
				continue
			}
			if req.StartVersion == start && m.Op == kvrpcpb.Op_CheckNotExists && e.ExecSeq > check {
				check = e.ExecSeq // the last successful check
			}
			if req.StartVersion == other && (create == 0 || e.ExecSeq < create) {
				create = e.ExecSeq // the first successful prewrite of the key
			}
		}
	}
	return check != 0 && create != 0 && create > check
}
