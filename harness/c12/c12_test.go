// Package c12 decides property C12: the in-process mock TiKV answers every MVCC
// command like the reference Percolator model (harness/mvccmodel).
package c12

import (
	"bytes"
	"fmt"
	"math"
	"sort"
	"strings"
	"testing"

	"github.com/pingcap/kvproto/pkg/kvrpcpb"
	"github.com/pkg/errors"
	"github.com/tikv/client-go/v2/internal/mockstore/mocktikv"
	"github.com/tikv/client-go/v2/verif/ev"
	mm "github.com/tikv/client-go/v2/verif/mvccmodel"
	_ "github.com/tikv/client-go/v2/verif/quiet"
	"pgregory.net/rapid"
)

const SI = kvrpcpb.IsolationLevel_SI

func ts(k int) uint64 { return uint64(k) << 18 } // physical = k ms, logical 0

var keyPool = []string{"a", "b", "c", "d"}

type txn struct {
	start, commit uint64
	forUpdates    []uint64 // start itself plus later distinct values
}

type world struct {
	t     *rapid.T
	real  *mocktikv.MVCCLevelDB
	m     *mm.Store
	txns  []txn
	used  map[int]bool
	nKeys int
	ops   []string
	// facts
	rollbackClass, commitClass bool
	sharedKey                  map[string]map[int]bool
	rec                        *ev.Recorder
}

func (w *world) fresh(name string) uint64 {
	for i := 0; i < 100; i++ {
		k := rapid.IntRange(1, 70).Draw(w.t, name)
		if !w.used[k] {
			w.used[k] = true
			return ts(k)
		}
	}
	for k := 71; ; k++ {
		if !w.used[k] {
			w.used[k] = true
			return ts(k)
		}
	}
}

func (w *world) fail(f string, a ...any) {
	ops := w.ops
	w.t.Fatalf(f+"\n  history: %s", append(a, strings.Join(ops, " ; "))...)
}

func classOf(err error) string {
	if err == nil {
		return mm.OK
	}
	switch e := errors.Cause(err).(type) {
	case *mocktikv.ErrLocked:
		return mm.Locked
	case *mocktikv.ErrConflict:
		return mm.WriteConflict
	case *mocktikv.ErrKeyAlreadyExist:
		return mm.AlreadyExist
	case *mocktikv.ErrAlreadyRollbacked:
		return mm.AlreadyRolledBk
	case mocktikv.ErrAbort:
		return mm.Abort
	case mocktikv.ErrRetryable:
		return mm.Retryable
	case mocktikv.ErrAlreadyCommitted:
		return mm.AlreadyCommitted
	case *mocktikv.ErrCommitTSExpired:
		return mm.CommitTSExpired
	case *mocktikv.ErrTxnNotFound:
		return mm.TxnNotFound
	case *mocktikv.ErrDeadlock:
		return "deadlock"
	default:
		_ = e
		return mm.ErrOther
	}
}

func classOfKeyErr(e *kvrpcpb.KeyError) string {
	switch {
	case e == nil:
		return mm.OK
	case e.Locked != nil:
		return mm.Locked
	case e.Conflict != nil:
		return mm.WriteConflict
	case e.AlreadyExist != nil:
		return mm.AlreadyExist
	case e.Deadlock != nil:
		return "deadlock"
	case e.Retryable != "":
		return mm.Retryable
	case strings.Contains(e.Abort, "already rolled back"):
		return mm.AlreadyRolledBk
	case e.Abort != "":
		return mm.ErrOther
	}
	return mm.ErrOther
}

func kindOfOp(op kvrpcpb.Op) mm.Kind {
	switch op {
	case kvrpcpb.Op_Put:
		return mm.Put
	case kvrpcpb.Op_Del:
		return mm.Del
	case kvrpcpb.Op_Lock:
		return mm.Lock
	case kvrpcpb.Op_Rollback:
		return mm.Rollback
	case kvrpcpb.Op_PessimisticLock:
		return mm.Pessimistic
	}
	return mm.Kind(-1)
}

// dump returns a canonical text of the mock's MVCC state of all pool keys.
func (w *world) dump() string {
	var sb strings.Builder
	for _, k := range keyPool[:w.nKeys] {
		info := w.real.MvccGetByKey([]byte(k))
		fmt.Fprintf(&sb, "%s:", k)
		if info == nil {
			sb.WriteString("<nil>")
			continue
		}
		if l := info.Lock; l != nil {
			fmt.Fprintf(&sb, "L(%d,%s,%s,%q)", l.StartTs>>18, l.Primary, kindOfOp(l.Type), l.ShortValue)
		}
		for _, x := range info.Writes {
			fmt.Fprintf(&sb, "W(%d,%d,%s,%q)", x.CommitTs>>18, x.StartTs>>18, kindOfOp(x.Type), x.ShortValue)
		}
		sb.WriteString(" ")
	}
	return sb.String()
}

func (w *world) modelDump() string {
	var sb strings.Builder
	for _, k := range keyPool[:w.nKeys] {
		fmt.Fprintf(&sb, "%s:", k)
		if key := w.m.Keys[k]; key != nil {
			if l := key.Lock; l != nil {
				fmt.Fprintf(&sb, "L(%d,%s,%s,%q)", l.Start>>18, l.Primary, l.Kind, l.Value)
			}
			for _, x := range key.Writes {
				fmt.Fprintf(&sb, "W(%d,%d,%s,%q)", x.Commit>>18, x.Start>>18, x.Kind, x.Value)
			}
		}
		sb.WriteString(" ")
	}
	return sb.String()
}

const phantomStart = uint64(1<<40) | 7 // never used by any generated transaction

// checkState compares the full MVCC state and the hidden lock fields (ttl, for-update ts) through a probe.
func (w *world) checkState(after string) {
	if got, want := w.dump(), w.modelDump(); got != want {
		w.fail("after %s the MVCC state differs from the reference:\n   mock      %s\n   reference %s", after, got, want)
	}
	for _, k := range keyPool[:w.nKeys] {
		key := w.m.Keys[k]
		if key == nil || key.Lock == nil {
			continue
		}
		// probe: a prewrite of a foreign txn must be answered Locked with the lock's ttl / for-update ts; it changes nothing
		errs := w.real.Prewrite(&kvrpcpb.PrewriteRequest{Context: &kvrpcpb.Context{}, Mutations: []*kvrpcpb.Mutation{{Op: kvrpcpb.Op_Put, Key: []byte(k), Value: []byte("probe")}},
			PrimaryLock: []byte(k), StartVersion: phantomStart, LockTtl: 1})
		if len(errs) != 1 {
			w.fail("after %s: probe prewrite on locked key %s returned %d answers", after, k, len(errs))
		}
		le, ok := errors.Cause(errs[0]).(*mocktikv.ErrLocked)
		if !ok {
			w.fail("after %s: probe prewrite on key %s locked by txn@%d returned %v, expected a key-is-locked answer", after, k, key.Lock.Start>>18, errs[0])
		}
		l := key.Lock
		if le.StartTS != l.Start || le.TTL != l.TTL || le.ForUpdateTS != l.ForUpdate || string(le.Primary) != l.Primary || kindOfOp(le.LockType) != l.Kind {
			w.fail("after %s: lock on %s is (start %d, ttl %d, forUpdate %d, primary %s, %s); reference (start %d, ttl %d, forUpdate %d, primary %s, %s)",
				after, k, le.StartTS>>18, le.TTL, le.ForUpdateTS>>18, le.Primary, kindOfOp(le.LockType), l.Start>>18, l.TTL, l.ForUpdate>>18, l.Primary, l.Kind)
		}
	}
	// cross-cutting: never both committed and rolled back for one (key, txn)
	for _, k := range keyPool[:w.nKeys] {
		info := w.real.MvccGetByKey([]byte(k))
		if info == nil {
			continue
		}
		seen := map[uint64]kvrpcpb.Op{}
		for _, x := range info.Writes {
			if prev, ok := seen[x.StartTs]; ok && (prev == kvrpcpb.Op_Rollback) != (x.Type == kvrpcpb.Op_Rollback) {
				w.fail("after %s: txn@%d is both committed and rolled back on key %s", after, x.StartTs>>18, k)
			}
			seen[x.StartTs] = x.Type
		}
	}
}

func (w *world) note(key string, ti int) {
	if w.sharedKey[key] == nil {
		w.sharedKey[key] = map[int]bool{}
	}
	w.sharedKey[key][ti] = true
}

func (w *world) drawKeys(min int) []string {
	n := rapid.IntRange(min, w.nKeys).Draw(w.t, "nkeys")
	perm := rapid.Permutation(keyPool[:w.nKeys]).Draw(w.t, "keyperm")
	ks := append([]string{}, perm[:n]...)
	sort.Strings(ks)
	return ks
}

func (w *world) finished(ti int, key string) bool {
	k := w.m.Keys[key]
	if k == nil {
		return false
	}
	for _, x := range k.Writes {
		if x.Start == w.txns[ti].start {
			return true
		}
	}
	return false
}

func toBytes(ks []string) [][]byte {
	out := make([][]byte, len(ks))
	for i, k := range ks {
		out[i] = []byte(k)
	}
	return out
}

func (w *world) readTS() uint64 {
	switch rapid.IntRange(0, 5).Draw(w.t, "rts") {
	case 0:
		return math.MaxUint64
	case 1:
		return w.fresh("readts")
	default: // reuse: exactly a commit/start ts of some txn, +-0 (boundary of visibility)
		x := w.txns[rapid.IntRange(0, len(w.txns)-1).Draw(w.t, "rtxn")]
		if rapid.Bool().Draw(w.t, "rcommit") {
			return x.commit
		}
		return x.start
	}
}

func (w *world) resolvedSet() []uint64 {
	var out []uint64
	for _, x := range w.txns {
		if rapid.IntRange(0, 3).Draw(w.t, "resolved") == 0 {
			out = append(out, x.start)
		}
	}
	return out
}

func (w *world) cmpRead(what, key string, val []byte, err error, want mm.ReadRes) {
	if want.Locked != nil {
		le, ok := errors.Cause(err).(*mocktikv.ErrLocked)
		if !ok || le.StartTS != want.Locked.Start {
			w.fail("%s key %s returned (%q, %v); reference: blocked by the lock of txn@%d", what, key, val, err, want.Locked.Start>>18)
		}
		return
	}
	if err != nil {
		w.fail("%s key %s failed with %v; reference value %q found=%v", what, key, err, want.Value, want.Found)
	}
	if want.Found != (val != nil) || !bytes.Equal(val, want.Value) {
		w.fail("%s key %s = %q; reference %q (found=%v)", what, key, val, want.Value, want.Found)
	}
}

func (w *world) cmpScan(what string, got []mocktikv.Pair, want []mm.ScanItem) {
	if len(got) != len(want) {
		w.fail("%s returned %d pairs %v; reference %d %v", what, len(got), fmtPairs(got), len(want), fmtItems(want))
	}
	for i := range want {
		if want[i].Locked != nil {
			if got[i].Err == nil {
				w.fail("%s item #%d = %s=%q; reference: key %s is blocked by a lock", what, i, got[i].Key, got[i].Value, want[i].Key)
			}
			continue
		}
		if got[i].Err != nil || string(got[i].Key) != want[i].Key || !bytes.Equal(got[i].Value, want[i].Value) {
			w.fail("%s item #%d = (%s,%q,%v); reference (%s,%q)", what, i, got[i].Key, got[i].Value, got[i].Err, want[i].Key, want[i].Value)
		}
	}
}

func fmtPairs(ps []mocktikv.Pair) string {
	var s []string
	for _, p := range ps {
		s = append(s, fmt.Sprintf("%s=%q/%v", p.Key, p.Value, p.Err))
	}
	return strings.Join(s, ",")
}

func fmtItems(ps []mm.ScanItem) string {
	var s []string
	for _, p := range ps {
		s = append(s, fmt.Sprintf("%s=%q/locked=%v", p.Key, p.Value, p.Locked != nil))
	}
	return strings.Join(s, ",")
}

func (w *world) bounds() (string, string) {
	opts := append([]string{""}, keyPool[:w.nKeys]...)
	a := rapid.SampledFrom(opts).Draw(w.t, "from")
	b := rapid.SampledFrom(opts).Draw(w.t, "to")
	if b != "" && a > b {
		a, b = b, a
	}
	return a, b
}

// idem re-issues an already effective command and demands the same answer class and an unchanged store.
func (w *world) idem(what string, again func() string, first string) {
	before := w.dump()
	if second := again(); second != first {
		w.fail("repeating %s gave %q, the first time %q (effect already in place: same answer expected)", what, second, first)
	}
	if after := w.dump(); after != before {
		w.fail("repeating %s changed the store:\n   before %s\n   after  %s", what, before, after)
	}
}

func runCase(t *rapid.T, rec *ev.Recorder) {
	real, err := mocktikv.NewMVCCLevelDB("")
	if err != nil {
		t.Fatalf("VERIF-INFRA: %v", err)
	}
	defer real.Close()
	w := &world{t: t, real: real, m: mm.New(), used: map[int]bool{}, sharedKey: map[string]map[int]bool{}, rec: rec}
	w.nKeys = rapid.IntRange(1, 4).Draw(t, "keys")
	nTxn := rapid.IntRange(1, 4).Draw(t, "txns")
	for i := 0; i < nTxn; i++ {
		s := w.fresh("start")
		c := w.fresh("commit")
		if c < s {
			s, c = c, s
		}
		x := txn{start: s, commit: c, forUpdates: []uint64{s}}
		for j := 0; j < 2; j++ {
			if f := w.fresh("forupdate"); f > s {
				x.forUpdates = append(x.forUpdates, f)
			}
		}
		w.txns = append(w.txns, x)
	}
	pick := func() (int, *txn) {
		i := rapid.IntRange(0, nTxn-1).Draw(t, "txn")
		return i, &w.txns[i]
	}
	val := func() []byte { return []byte{byte('v'), byte('0' + rapid.IntRange(0, 9).Draw(t, "val"))} }

	t.Repeat(map[string]func(*rapid.T){
		"prewrite": func(t *rapid.T) {
			ti, x := pick()
			keys := w.drawKeys(1)
			var live []string
			for _, k := range keys {
				if !w.finished(ti, k) {
					live = append(live, k)
				}
			}
			if len(live) == 0 {
				t.Skip()
			}
			primary := rapid.SampledFrom(keyPool[:w.nKeys]).Draw(t, "primary")
			req := mm.PrewriteReq{Start: x.start, TTL: uint64(rapid.SampledFrom([]int{0, 1, 3, 40}).Draw(t, "ttl")), Primary: primary}
			pess := rapid.Bool().Draw(t, "pessimistic")
			if pess {
				req.ForUpdate = rapid.SampledFrom(x.forUpdates).Draw(t, "forupdate")
			}
			if rapid.Bool().Draw(t, "mincommit") {
				req.MinCommit = x.start + uint64(rapid.IntRange(1, 3).Draw(t, "mc"))
			}
			preq := &kvrpcpb.PrewriteRequest{Context: &kvrpcpb.Context{}, PrimaryLock: []byte(primary), StartVersion: x.start, LockTtl: req.TTL, ForUpdateTs: req.ForUpdate, MinCommitTs: req.MinCommit}
			var desc []string
			for _, k := range live {
				op := rapid.SampledFrom([]string{"put", "put", "del", "lock", "insert", "check-not-exists"}).Draw(t, "op")
				if pess && op == "check-not-exists" {
					op = "put"
				}
				m := mm.Mutation{Key: k, Op: op}
				pm := &kvrpcpb.Mutation{Key: []byte(k)}
				switch op {
				case "put":
					m.Value = val()
					pm.Op, pm.Value = kvrpcpb.Op_Put, m.Value
				case "insert":
					m.Value = val()
					pm.Op, pm.Value = kvrpcpb.Op_Insert, m.Value
				case "del":
					pm.Op = kvrpcpb.Op_Del
				case "lock":
					pm.Op = kvrpcpb.Op_Lock
				case "check-not-exists":
					pm.Op = kvrpcpb.Op_CheckNotExists
				}
				action := kvrpcpb.PrewriteRequest_SKIP_PESSIMISTIC_CHECK
				if pess {
					// a pessimistic txn prewrites its locked keys with DO_PESSIMISTIC_CHECK; occasionally a key it never locked
					if key := w.m.Keys[k]; (key != nil && key.Lock != nil && key.Lock.Start == x.start && key.Lock.Kind == mm.Pessimistic) || rapid.IntRange(0, 5).Draw(t, "docheck") == 0 {
						action = kvrpcpb.PrewriteRequest_DO_PESSIMISTIC_CHECK
						m.PessimisticCheck = true
					}
					preq.PessimisticActions = append(preq.PessimisticActions, action)
				}
				req.Mutations = append(req.Mutations, m)
				preq.Mutations = append(preq.Mutations, pm)
				desc = append(desc, fmt.Sprintf("%s:%s%v", k, op, m.PessimisticCheck))
				w.note(k, ti)
			}
			name := fmt.Sprintf("prewrite(T%d@%d,[%s],primary=%s,ttl=%d,fu=%d,minc=%d)", ti, x.start>>18, strings.Join(desc, " "), primary, req.TTL, req.ForUpdate>>18, req.MinCommit>>18)
			w.ops = append(w.ops, name)
			want, applied := w.m.Prewrite(req)
			got := real.Prewrite(preq)
			classes := func(errs []error) string {
				var c []string
				for _, e := range errs {
					c = append(c, classOf(e))
				}
				return strings.Join(c, ",")
			}
			if len(got) != len(want) {
				w.fail("%s returned %d answers [%s]; reference %d %v", name, len(got), classes(got), len(want), want)
			}
			for i := range want {
				c := classOf(got[i])
				if !want[i].Accepts(c) {
					w.fail("%s answer #%d is %q (%v); reference %v", name, i, c, got[i], want[i].Classes)
				}
				if want[i].LockInfo != nil && c == mm.Locked {
					le := errors.Cause(got[i]).(*mocktikv.ErrLocked)
					if le.StartTS != want[i].LockInfo.Start || le.TTL != want[i].LockInfo.TTL {
						w.fail("%s answer #%d reports lock (start %d ttl %d); reference (start %d ttl %d)", name, i, le.StartTS>>18, le.TTL, want[i].LockInfo.Start>>18, want[i].LockInfo.TTL)
					}
				}
			}
			w.checkState(name)
			if applied {
				w.idem(name, func() string { return classes(real.Prewrite(preq)) }, classes(got))
			}
		},
		"latePrewrite": func(t *rapid.T) {
			// a prewrite that arrives after the txn's own commit or rollback on the key must be rejected
			ti, x := pick()
			var cands []string
			for _, k := range keyPool[:w.nKeys] {
				if w.finished(ti, k) && (w.m.Keys[k].Lock == nil || w.m.Keys[k].Lock.Start != x.start) {
					cands = append(cands, k)
				}
			}
			if len(cands) == 0 {
				t.Skip()
			}
			k := rapid.SampledFrom(cands).Draw(t, "key")
			name := fmt.Sprintf("latePrewrite(T%d@%d,%s)", ti, x.start>>18, k)
			w.ops = append(w.ops, name)
			before := w.dump()
			errs := real.Prewrite(&kvrpcpb.PrewriteRequest{Context: &kvrpcpb.Context{}, Mutations: []*kvrpcpb.Mutation{{Op: kvrpcpb.Op_Put, Key: []byte(k), Value: []byte("late")}},
				PrimaryLock: []byte(k), StartVersion: x.start, LockTtl: 3})
			if len(errs) != 1 || errs[0] == nil {
				w.fail("%s was accepted although the txn is already finished on that key (state before: %s)", name, before)
			}
			if after := w.dump(); after != before {
				w.fail("%s was rejected but changed the store: %s -> %s", name, before, after)
			}
		},
		"plock": func(t *rapid.T) {
			ti, x := pick()
			keys := w.drawKeys(1)
			var live []string
			for _, k := range keys {
				if !w.finished(ti, k) {
					live = append(live, k)
				}
			}
			if len(live) == 0 {
				t.Skip()
			}
			req := mm.PLockReq{Start: x.start, ForUpdate: rapid.SampledFrom(x.forUpdates).Draw(t, "forupdate"), TTL: uint64(rapid.SampledFrom([]int{0, 2, 30}).Draw(t, "ttl")),
				Primary: rapid.SampledFrom(keyPool[:w.nKeys]).Draw(t, "primary"), Keys: live}
			switch rapid.IntRange(0, 4).Draw(t, "mode") {
			case 1:
				req.ReturnValues = true
			case 2:
				req.CheckExistence = true
			case 3:
				req.ReturnValues, req.LockOnlyIfExists = true, true
			case 4:
				req.ForceLock = true
				req.Keys = live[:1] // force-lock requests carry a single key
			}
			req.AssertNotExist = rapid.IntRange(0, 4).Draw(t, "notexist") == 0
			preq := &kvrpcpb.PessimisticLockRequest{Context: &kvrpcpb.Context{}, PrimaryLock: []byte(req.Primary), StartVersion: x.start, ForUpdateTs: req.ForUpdate, LockTtl: req.TTL,
				WaitTimeout: mocktikv.LockNoWait, ReturnValues: req.ReturnValues, CheckExistence: req.CheckExistence, LockOnlyIfExists: req.LockOnlyIfExists}
			if req.ForceLock {
				preq.WakeUpMode = kvrpcpb.PessimisticLockWakeUpMode_WakeUpModeForceLock
			}
			for _, k := range req.Keys {
				pm := &kvrpcpb.Mutation{Op: kvrpcpb.Op_PessimisticLock, Key: []byte(k)}
				if req.AssertNotExist {
					pm.Assertion = kvrpcpb.Assertion_NotExist
				}
				preq.Mutations = append(preq.Mutations, pm)
				w.note(k, ti)
			}
			name := fmt.Sprintf("plock(T%d@%d,%v,fu=%d,ret=%v,chk=%v,onlyIfExists=%v,notExist=%v,force=%v,ttl=%d)", ti, x.start>>18, req.Keys, req.ForUpdate>>18, req.ReturnValues, req.CheckExistence, req.LockOnlyIfExists, req.AssertNotExist, req.ForceLock, req.TTL)
			w.ops = append(w.ops, name)
			want, applied := w.m.PessimisticLock(req)
			resp := real.PessimisticLock(preq)
			// align: the store reports the non-OK keys in order and stops after its first "locked" answer (no-wait)
			var wantErrs []mm.PLockKeyRes
			for _, r := range want {
				if !r.IsOK() {
					wantErrs = append(wantErrs, r)
				}
			}
			gotClasses := func() (gc []string) {
				for _, e := range resp.Errors {
					gc = append(gc, classOfKeyErr(e))
				}
				return
			}
			if (len(resp.Errors) == 0) != (len(wantErrs) == 0) || len(resp.Errors) > len(wantErrs) {
				w.fail("%s returned errors %v; reference %v", name, gotClasses(), fmtPlock(want))
			}
			for i, e := range resp.Errors {
				c := classOfKeyErr(e)
				if !wantErrs[i].Accepts(c) {
					w.fail("%s error #%d is %q (%v); reference %v", name, i, c, e, wantErrs[i].Classes)
				}
				if c == mm.Locked && i != len(resp.Errors)-1 {
					w.fail("%s went on after a key-is-locked answer in no-wait mode: %v", name, gotClasses())
				}
				if i == len(resp.Errors)-1 && c != mm.Locked && len(resp.Errors) != len(wantErrs) {
					w.fail("%s returned errors %v; reference %v", name, gotClasses(), fmtPlock(want))
				}
			}
			if applied {
				switch {
				case req.ForceLock:
					if len(resp.Results) != len(want) {
						w.fail("%s returned %d results; reference %d", name, len(resp.Results), len(want))
					}
					for i, r := range resp.Results {
						wr := want[i]
						if (r.Type == kvrpcpb.PessimisticLockKeyResultType_LockResultLockedWithConflict) != (wr.LockedWithConflict != 0) || r.LockedWithConflictTs != wr.LockedWithConflict {
							w.fail("%s result #%d type %v conflict ts %d; reference conflict ts %d", name, i, r.Type, r.LockedWithConflictTs>>18, wr.LockedWithConflict>>18)
						}
						if wr.LockedWithConflict != 0 && (!bytes.Equal(r.Value, wr.Value) || r.Existence != wr.Exists) {
							w.fail("%s result #%d value %q exists %v; reference %q %v", name, i, r.Value, r.Existence, wr.Value, wr.Exists)
						}
					}
				case req.ReturnValues:
					if len(resp.Values) != len(want) || len(resp.NotFounds) != len(want) {
						w.fail("%s returned %d values / %d not-founds for %d keys", name, len(resp.Values), len(resp.NotFounds), len(want))
					}
					for i := range want {
						if !bytes.Equal(resp.Values[i], want[i].Value) || resp.NotFounds[i] == want[i].Exists {
							w.fail("%s key %s returned value %q notFound=%v; reference %q exists=%v", name, req.Keys[i], resp.Values[i], resp.NotFounds[i], want[i].Value, want[i].Exists)
						}
					}
				case req.CheckExistence:
					if len(resp.NotFounds) != len(want) {
						w.fail("%s returned %d not-founds for %d keys", name, len(resp.NotFounds), len(want))
					}
					for i := range want {
						if resp.NotFounds[i] == want[i].Exists {
							w.fail("%s key %s notFound=%v; reference exists=%v", name, req.Keys[i], resp.NotFounds[i], want[i].Exists)
						}
					}
				}
			}
			w.checkState(name)
		},
		"prollback": func(t *rapid.T) {
			ti, x := pick()
			keys := w.drawKeys(1)
			fu := rapid.SampledFrom(x.forUpdates).Draw(t, "forupdate")
			name := fmt.Sprintf("pessimisticRollback(T%d@%d,%v,fu=%d)", ti, x.start>>18, keys, fu>>18)
			w.ops = append(w.ops, name)
			w.m.PessimisticRollback(keys, x.start, fu)
			for _, e := range real.PessimisticRollback(nil, nil, toBytes(keys), x.start, fu) {
				if e != nil {
					w.fail("%s failed: %v", name, e)
				}
			}
			w.checkState(name)
		},
		"commit": func(t *rapid.T) {
			ti, x := pick()
			keys := w.drawKeys(1)
			name := fmt.Sprintf("commit(T%d@%d,%v,c=%d)", ti, x.start>>18, keys, x.commit>>18)
			w.ops = append(w.ops, name)
			want := w.m.Commit(keys, x.start, x.commit)
			err := real.Commit(toBytes(keys), x.start, x.commit)
			if c := classOf(err); !want.Accepts(c) {
				w.fail("%s returned %q (%v); reference %v", name, c, err, want.Classes)
			}
			w.checkState(name)
			if want.IsOK() {
				w.commitClass = true
				w.idem(name, func() string { return classOf(real.Commit(toBytes(keys), x.start, x.commit)) }, mm.OK)
			}
		},
		"rollback": func(t *rapid.T) {
			ti, x := pick()
			keys := w.drawKeys(1)
			name := fmt.Sprintf("rollback(T%d@%d,%v)", ti, x.start>>18, keys)
			w.ops = append(w.ops, name)
			want := w.m.BatchRollback(keys, x.start)
			err := real.Rollback(toBytes(keys), x.start)
			if c := classOf(err); !want.Accepts(c) {
				w.fail("%s returned %q (%v); reference %v", name, c, err, want.Classes)
			}
			if ac, ok := errors.Cause(err).(mocktikv.ErrAlreadyCommitted); ok && uint64(ac) != want.CommitTS {
				w.fail("%s reports commit ts %d; reference %d", name, uint64(ac)>>18, want.CommitTS>>18)
			}
			w.checkState(name)
			if want.IsOK() {
				w.rollbackClass = true
				w.idem(name, func() string { return classOf(real.Rollback(toBytes(keys), x.start)) }, mm.OK)
			}
		},
		"cleanup": func(t *rapid.T) {
			ti, x := pick()
			k := rapid.SampledFrom(keyPool[:w.nKeys]).Draw(t, "key")
			var cur uint64
			if rapid.Bool().Draw(t, "withcurrent") {
				cur = w.fresh("current")
			}
			name := fmt.Sprintf("cleanup(T%d@%d,%s,cur=%d)", ti, x.start>>18, k, cur>>18)
			w.ops = append(w.ops, name)
			want := w.m.Cleanup(k, x.start, cur)
			err := real.Cleanup([]byte(k), x.start, cur)
			if c := classOf(err); !want.Accepts(c) {
				w.fail("%s returned %q (%v); reference %v", name, c, err, want.Classes)
			}
			w.checkState(name)
			if want.IsOK() {
				w.rollbackClass = true
				w.idem(name, func() string { return classOf(real.Cleanup([]byte(k), x.start, cur)) }, mm.OK)
			}
		},
		"checkTxnStatus": func(t *rapid.T) {
			ti, x := pick()
			k := rapid.SampledFrom(keyPool[:w.nKeys]).Draw(t, "primary")
			caller := w.readTS()
			cur := w.fresh("current")
			rbIfNot := rapid.Bool().Draw(t, "rollbackIfNotExist")
			resPess := rapid.IntRange(0, 3).Draw(t, "resolvingPessimistic") == 0
			name := fmt.Sprintf("checkTxnStatus(T%d@%d,%s,caller=%d,cur=%d,rbIfNotExist=%v,resolvingPess=%v)", ti, x.start>>18, k, int64(caller>>18), cur>>18, rbIfNot, resPess)
			w.ops = append(w.ops, name)
			want := w.m.CheckTxnStatus(k, x.start, caller, cur, rbIfNot, resPess)
			call := func() string {
				ttl, cts, action, err := real.CheckTxnStatus([]byte(k), x.start, caller, cur, rbIfNot, resPess)
				return fmt.Sprintf("%s ttl=%d commit=%d action=%s", classOf(err), ttl, cts>>18, action)
			}
			got := call()
			exp := fmt.Sprintf("%s ttl=%d commit=%d action=%s", want.Classes[0], want.TTL, want.CommitTS>>18, want.Action)
			if got != exp {
				w.fail("%s returned [%s]; reference [%s]", name, got, exp)
			}
			if strings.Contains(want.Action, "Rollback") {
				w.rollbackClass = true
			}
			w.checkState(name)
			// a status check is repeatable: the second answer is what the reference says for the second call
			want2 := w.m.CheckTxnStatus(k, x.start, caller, cur, rbIfNot, resPess)
			exp2 := fmt.Sprintf("%s ttl=%d commit=%d action=%s", want2.Classes[0], want2.TTL, want2.CommitTS>>18, want2.Action)
			before := w.dump()
			if got2 := call(); got2 != exp2 {
				w.fail("repeated %s returned [%s]; reference [%s]", name, got2, exp2)
			}
			if w.dump() != before {
				w.fail("repeated %s changed the store", name)
			}
		},
		"heartbeat": func(t *rapid.T) {
			ti, x := pick()
			k := rapid.SampledFrom(keyPool[:w.nKeys]).Draw(t, "key")
			adv := uint64(rapid.SampledFrom([]int{0, 2, 5, 60}).Draw(t, "advise"))
			name := fmt.Sprintf("heartbeat(T%d@%d,%s,%d)", ti, x.start>>18, k, adv)
			w.ops = append(w.ops, name)
			wttl, want := w.m.TxnHeartBeat(k, x.start, adv)
			ttl, err := real.TxnHeartBeat([]byte(k), x.start, adv)
			if (err == nil) != want.IsOK() || (err == nil && ttl != wttl) {
				w.fail("%s returned ttl %d, %v; reference ttl %d ok=%v", name, ttl, err, wttl, want.IsOK())
			}
			w.checkState(name)
		},
		"resolve": func(t *rapid.T) {
			ti, x := pick()
			from, to := w.bounds()
			var c uint64
			if rapid.Bool().Draw(t, "commitit") {
				c = x.commit
				w.commitClass = true
			} else {
				w.rollbackClass = true
			}
			name := fmt.Sprintf("resolveLock(T%d@%d,[%s,%s),commit=%d)", ti, x.start>>18, from, to, c>>18)
			w.ops = append(w.ops, name)
			w.m.ResolveLock(from, to, x.start, c)
			if err := real.ResolveLock([]byte(from), []byte(to), x.start, c); err != nil {
				w.fail("%s failed: %v", name, err)
			}
			w.checkState(name)
			w.idem(name, func() string { return classOf(real.ResolveLock([]byte(from), []byte(to), x.start, c)) }, mm.OK)
		},
		"batchResolve": func(t *rapid.T) {
			from, to := w.bounds()
			infos := map[uint64]uint64{}
			var desc []string
			for i, x := range w.txns {
				switch rapid.IntRange(0, 2).Draw(t, "what") {
				case 1:
					infos[x.start] = 0
					desc = append(desc, fmt.Sprintf("T%d:rollback", i))
				case 2:
					infos[x.start] = x.commit
					desc = append(desc, fmt.Sprintf("T%d:commit", i))
				}
			}
			name := fmt.Sprintf("batchResolveLock([%s,%s),%v)", from, to, desc)
			w.ops = append(w.ops, name)
			w.m.BatchResolveLock(from, to, infos)
			if err := real.BatchResolveLock([]byte(from), []byte(to), infos); err != nil {
				w.fail("%s failed: %v", name, err)
			}
			w.checkState(name)
		},
		"scanLock": func(t *rapid.T) {
			from, to := w.bounds()
			max := w.readTS()
			name := fmt.Sprintf("scanLock([%s,%s),max=%d)", from, to, int64(max>>18))
			w.ops = append(w.ops, name)
			want := w.m.ScanLock(from, to, max)
			got, err := real.ScanLock([]byte(from), []byte(to), max)
			if err != nil || len(got) != len(want) {
				w.fail("%s returned %d locks, %v; reference %d", name, len(got), err, len(want))
			}
			for i := range want {
				if string(got[i].Key) != want[i].Key || got[i].LockVersion != want[i].Start || string(got[i].PrimaryLock) != want[i].Primary {
					w.fail("%s lock #%d = (%s,@%d,%s); reference (%s,@%d,%s)", name, i, got[i].Key, got[i].LockVersion>>18, got[i].PrimaryLock, want[i].Key, want[i].Start>>18, want[i].Primary)
				}
			}
		},
		"gc": func(t *rapid.T) {
			from, to := w.bounds()
			safe := w.fresh("safepoint")
			name := fmt.Sprintf("gc([%s,%s),safe=%d)", from, to, safe>>18)
			w.ops = append(w.ops, name)
			// independent post-condition: every read at or above the safe point is preserved
			type probe struct {
				key string
				ts  uint64
			}
			var probes []probe
			before := map[probe]mm.ReadRes{}
			for _, k := range keyPool[:w.nKeys] {
				for d := 0; d < 80; d += 1 {
					p := probe{k, safe + ts(d)}
					probes = append(probes, p)
					v, err := real.Get([]byte(k), p.ts, kvrpcpb.IsolationLevel_RC, nil)
					before[p] = mm.ReadRes{Value: v, Found: v != nil && err == nil}
				}
			}
			want := w.m.GC(from, to, safe)
			err := real.GC([]byte(from), []byte(to), safe)
			if (err == nil) != want.IsOK() {
				w.fail("%s returned %v; reference ok=%v (GC must refuse exactly when a lock at or below the safe point is in range)", name, err, want.IsOK())
			}
			w.checkState(name)
			for _, p := range probes {
				v, _ := real.Get([]byte(p.key), p.ts, kvrpcpb.IsolationLevel_RC, nil)
				if !bytes.Equal(v, before[p].Value) {
					w.fail("%s changed the read of %s at ts %d (>= safe point): %q -> %q", name, p.key, p.ts>>18, before[p].Value, v)
				}
			}
		},
		"get": func(t *rapid.T) {
			k := rapid.SampledFrom(keyPool[:w.nKeys]).Draw(t, "key")
			rts, res := w.readTS(), w.resolvedSet()
			name := fmt.Sprintf("get(%s,ts=%d,resolved=%v)", k, int64(rts>>18), shift(res))
			w.ops = append(w.ops, name)
			v, err := real.Get([]byte(k), rts, SI, res)
			w.cmpRead(name, k, v, err, w.m.Get(k, rts, res))
		},
		"batchGet": func(t *rapid.T) {
			keys := w.drawKeys(1)
			rts, res := w.readTS(), w.resolvedSet()
			name := fmt.Sprintf("batchGet(%v,ts=%d,resolved=%v)", keys, int64(rts>>18), shift(res))
			w.ops = append(w.ops, name)
			got := real.BatchGet(toBytes(keys), rts, SI, res)
			idx := map[string]mocktikv.Pair{}
			for _, p := range got {
				idx[string(p.Key)] = p
			}
			n := 0
			for _, k := range keys {
				want := w.m.Get(k, rts, res)
				p, ok := idx[k]
				if want.Locked == nil && !want.Found {
					if ok {
						w.fail("%s returned %s=%q/%v; reference: not found", name, k, p.Value, p.Err)
					}
					continue
				}
				n++
				if !ok {
					w.fail("%s omitted key %s; reference %q locked=%v", name, k, want.Value, want.Locked != nil)
				}
				w.cmpRead(name, k, p.Value, p.Err, want)
			}
			if n != len(got) {
				w.fail("%s returned %d pairs, reference %d", name, len(got), n)
			}
		},
		"scan": func(t *rapid.T) {
			from, to := w.bounds()
			if from == "" {
				from = keyPool[0]
			}
			limit := rapid.IntRange(1, 5).Draw(t, "limit")
			rts, res := w.readTS(), w.resolvedSet()
			reverse := rapid.Bool().Draw(t, "reverse")
			name := fmt.Sprintf("scan([%s,%s),limit=%d,ts=%d,resolved=%v,reverse=%v)", from, to, limit, int64(rts>>18), shift(res), reverse)
			w.ops = append(w.ops, name)
			want := w.m.Scan(from, to, limit, rts, res, reverse)
			var got []mocktikv.Pair
			if reverse {
				got = real.ReverseScan([]byte(from), []byte(to), limit, rts, SI, res)
			} else {
				got = real.Scan([]byte(from), []byte(to), limit, rts, SI, res)
			}
			w.cmpScan(name, got, want)
			// scan == per-key gets of its range (stated directly, without the model)
			if !reverse {
				var viaGet []string
				for _, k := range keyPool[:w.nKeys] {
					if k >= from && (to == "" || k < to) && len(viaGet) < limit {
						v, err := real.Get([]byte(k), rts, SI, res)
						if err != nil || v != nil {
							viaGet = append(viaGet, fmt.Sprintf("%s=%q/%v", k, v, err != nil))
						}
					}
				}
				var viaScan []string
				for _, p := range got {
					viaScan = append(viaScan, fmt.Sprintf("%s=%q/%v", orKey(p, viaGet, len(viaScan)), p.Value, p.Err != nil))
				}
				if strings.Join(viaGet, ",") != strings.Join(viaScan, ",") {
					w.fail("%s = [%s] but the per-key gets of the range give [%s]", name, strings.Join(viaScan, ","), strings.Join(viaGet, ","))
				}
			}
		},
	})
	nShared := 0
	for _, m := range w.sharedKey {
		if len(m) >= 2 {
			nShared++
		}
	}
	nt := nShared > 0 && w.rollbackClass && w.commitClass
	var shape []string
	for _, o := range w.ops {
		shape = append(shape, o[:strings.IndexByte(o, '(')])
	}
	ops := w.ops
	if len(ops) > 12 {
		ops = append(ops[:12:12], fmt.Sprintf("... %d more", len(w.ops)-12))
	}
	rec.Case(fmt.Sprintf("%d/%d/%s", nTxn, w.nKeys, strings.Join(shape, ",")), nt, []string{fmt.Sprintf("txns=%d", nTxn), fmt.Sprintf("shared-key=%v", nShared > 0)}, ops)
}

func orKey(p mocktikv.Pair, viaGet []string, i int) string {
	if p.Err != nil && i < len(viaGet) { // error pairs carry the key only in the error
		return viaGet[i][:strings.IndexByte(viaGet[i], '=')]
	}
	return string(p.Key)
}

func shift(x []uint64) []uint64 {
	o := make([]uint64, len(x))
	for i := range x {
		o[i] = x[i] >> 18
	}
	return o
}

func fmtPlock(rs []mm.PLockKeyRes) string {
	var s []string
	for _, r := range rs {
		s = append(s, fmt.Sprintf("%v", r.Classes))
	}
	return strings.Join(s, ",")
}

const rule = "random command sequences (rapid state machine, ~30-100 commands) over <=4 keys x <=4 transactions whose start/commit/for-update/current/safe-point/read timestamps are pairwise distinct and drawn in every relative order (physical part = value, so ttl arithmetic is exercised): Prewrite (put/del/lock/insert/check-not-exists, optimistic and pessimistic actions), PessimisticLock (normal/force-lock, return-values, check-existence, lock-only-if-exists, not-exist assertion), PessimisticRollback, Commit, BatchRollback, Cleanup, CheckTxnStatus, TxnHeartBeat, ResolveLock, BatchResolveLock, ScanLock, GC, Get, BatchGet, Scan, ReverseScan at the MVCCStore level; the driver does not follow the client protocol but honours the input contract (no lock request after the txn finished on the key, except the deliberately late prewrite that must be rejected); oracle: reference MVCC model (answer class, returned values/ttl/commit ts/action) + full per-key MVCC dump + hidden lock fields via a foreign-prewrite probe after every command, idempotence of repeated effective commands, scan = per-key gets, GC preserves reads >= safe point, never both committed and rolled back; non-trivial = >=2 txns touched one key and >=1 rollback-class and >=1 commit-class command; distinct = command-kind sequence"

func TestMockVsModel(t *testing.T) {
	rec := ev.For(t, "C12", rule)
	rapid.Check(t, func(t *rapid.T) { runCase(t, rec) })
}
