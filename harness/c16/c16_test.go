// Package c16 decides property C16 (buffer level): a pipelined buffer reads the latest
// write at every level (mutable / being flushed / flushed), hands each mutation to
// exactly one flush, generations increase with at most one flush in flight, and a
// flush error surfaces instead of losing writes.
package c16

import (
	"bytes"
	"context"
	"errors"
	"fmt"
	"sort"
	"strings"
	"sync/atomic"
	"testing"
	"time"

	"github.com/pingcap/failpoint"
	tikverr "github.com/tikv/client-go/v2/error"
	"github.com/tikv/client-go/v2/internal/unionstore"
	"github.com/tikv/client-go/v2/kv"
	"github.com/tikv/client-go/v2/util"
	"github.com/tikv/client-go/v2/verif/ev"
	_ "github.com/tikv/client-go/v2/verif/quiet"
	"pgregory.net/rapid"
)

type flushCall struct {
	gen     uint64
	content map[string][]byte // key -> value (empty = delete), flags-only keys excluded
	release chan error
}

type world struct {
	t        *rapid.T
	p        *unionstore.PipelinedMemDB
	mutable  map[string][]byte // writes since the last flush (empty value = tombstone)
	staged   []map[string][]byte
	flushing map[string][]byte
	remote   map[string][]byte // completed flushes, empty value = deleted
	inflight *flushCall
	calls    chan *flushCall
	active   int32
	overlap  int32
	gens     []uint64
	flushed  int // keys counted into Len by completed/in-flight flushes
	ops      []string
	minKeys  int
	// facts
	fellThrough, overlapped, failed bool
}

func (w *world) fail(f string, a ...any) {
	w.t.Fatalf(f+"\n  ops: %s", append(a, strings.Join(w.ops, " ; "))...)
}

func (w *world) top() map[string][]byte {
	if len(w.staged) > 0 {
		return w.staged[len(w.staged)-1]
	}
	return w.mutable
}

func (w *world) mutableView() map[string][]byte {
	v := map[string][]byte{}
	for k, x := range w.mutable {
		v[k] = x
	}
	for _, s := range w.staged {
		for k, x := range s {
			v[k] = x
		}
	}
	return v
}

// expected read: (value, found, level)
func (w *world) read(k string, local bool) ([]byte, bool, string) {
	if v, ok := w.mutableView()[k]; ok {
		return v, true, "mutable"
	}
	if v, ok := w.flushing[k]; ok {
		return v, true, "flushing"
	}
	if local {
		return nil, false, ""
	}
	if v, ok := w.remote[k]; ok {
		return v, true, "flushed"
	}
	return nil, false, ""
}

func (w *world) awaitCall() *flushCall {
	c, ok := ev.Await(w.calls, 600)
	if !ok {
		w.fail("VERIF-INFRA: the flush function was not invoked within 60 s")
		return nil
	}
	return c
}

// complete releases the in-flight flush with err and moves its content to the remote model.
func (w *world) complete(err error) {
	c := w.inflight
	w.inflight = nil
	if err == nil {
		for k, v := range c.content {
			w.remote[k] = v
		}
	}
	c.release <- err
}

var keys = []string{"a", "b", "c", "d", "e", "f"}

const rule = "rapid state machine on NewPipelinedMemDB(getter, flushFn): the harness flush function records generation and content and parks until the machine releases it with a drawn result, so 'flush still running while the next writes and reads arrive' is an owned schedule; ops: set / delete / get / get-local / batch-get (fills the batch-get cache) / flush(force) / flush(threshold-driven via failpoints, min keys 2..4) / flush-wait / complete-flush(ok|error) / staging / release / cleanup; model: mutable + flushing + remote maps; oracle: every read = latest write in program order (mutable > flushing > flushed, tombstones hide), each flush call carries exactly the mutations written since the previous flush, generations are 1,2,3,..., never two flush functions running at once, Len accounting, a failed flush is reported by the next Flush/FlushWait and Flush inside a stage is refused; non-trivial = a read fell through both local buffers to the flushed level, or writes/reads happened while a flush was in flight, or a flush failed; distinct = op-kind sequence"

func TestPipelinedBuffer(t *testing.T) {
	util.EnableFailpoints()
	rec := ev.For(t, "C16", rule)
	rapid.Check(t, func(t *rapid.T) {
		w := &world{t: t, mutable: map[string][]byte{}, remote: map[string][]byte{}, calls: make(chan *flushCall, 4)}
		w.minKeys = rapid.IntRange(2, 4).Draw(t, "minFlushKeys")
		if err := failpoint.Enable("tikvclient/pipelinedMemDBMinFlushKeys", fmt.Sprintf("return(%d)", w.minKeys)); err != nil {
			t.Fatalf("VERIF-INFRA: %v", err)
		}
		if err := failpoint.Enable("tikvclient/pipelinedMemDBMinFlushSize", "return(1)"); err != nil {
			t.Fatalf("VERIF-INFRA: %v", err)
		}
		defer failpoint.Disable("tikvclient/pipelinedMemDBMinFlushKeys")
		defer failpoint.Disable("tikvclient/pipelinedMemDBMinFlushSize")
		getter := func(ctx context.Context, ks [][]byte) (map[string]kv.ValueEntry, error) {
			out := map[string]kv.ValueEntry{}
			for _, k := range ks {
				if v, ok := w.remote[string(k)]; ok {
					out[string(k)] = kv.NewValueEntry(v, 0)
				}
			}
			return out, nil
		}
		flushFn := func(gen uint64, db *unionstore.MemDB) error {
			if n := atomic.AddInt32(&w.active, 1); n > 1 {
				atomic.StoreInt32(&w.overlap, n)
			}
			defer atomic.AddInt32(&w.active, -1)
			c := &flushCall{gen: gen, content: map[string][]byte{}, release: make(chan error, 1)}
			it := db.IterWithFlags(nil, nil)
			for it.Valid() {
				if it.HasValue() {
					c.content[string(it.Key())] = append([]byte{}, it.Value()...)
				}
				_ = it.Next()
			}
			w.calls <- c
			return <-c.release
		}
		w.p = unionstore.NewPipelinedMemDB(getter, flushFn)
		ctx := context.Background()
		injected := errors.New("injected flush failure")
		var pendingErr error // result of a completed flush not yet consumed by Flush/FlushWait
		aborted := false

		// startFlush models a Flush that was accepted by the buffer: mutable becomes flushing
		accepted := func(name string) {
			c := w.awaitCall()
			want := w.mutable
			if len(c.content) != len(want) {
				w.fail("%s: flush generation %d carries %d mutations %v, but %d were written since the previous flush %v", name, c.gen, len(c.content), fmtMap(c.content), len(want), fmtMap(want))
			}
			for k, v := range want {
				if got, ok := c.content[k]; !ok || !bytes.Equal(got, v) {
					w.fail("%s: flush generation %d has %q=%q, written %q", name, c.gen, k, got, v)
				}
			}
			if wantGen := uint64(len(w.gens) + 1); c.gen != wantGen {
				w.fail("%s: flush generation %d, expected %d (generations must be 1,2,3,...)", name, c.gen, wantGen)
			}
			w.gens = append(w.gens, c.gen)
			w.flushed += len(w.mutableLen())
			w.flushing, w.mutable = w.mutable, map[string][]byte{}
			w.inflight = c
		}
		// callBlocking runs f (a Flush/FlushWait that waits for the in-flight flush) and completes that flush meanwhile
		callBlocking := func(f func() error, result error) error {
			done := make(chan error, 1)
			go func() { done <- f() }()
			time.Sleep(200 * time.Microsecond)
			w.complete(result)
			err, ok := ev.Await(done, 600)
			if !ok {
				w.fail("a call waiting for the in-flight flush did not return after the flush completed")
				return nil
			}
			return err
		}
		t.Repeat(map[string]func(*rapid.T){
			"set": func(t *rapid.T) {
				if aborted {
					return // the transaction has failed; nothing more is specified
				}
				k := rapid.SampledFrom(keys).Draw(t, "k")
				v := []byte(fmt.Sprintf("v%d", rapid.IntRange(0, 50).Draw(t, "v")))
				w.ops = append(w.ops, fmt.Sprintf("set(%s,%s)", k, v))
				if err := w.p.Set([]byte(k), v); err != nil {
					w.fail("Set failed: %v", err)
				}
				w.top()[k] = v
				if w.inflight != nil {
					w.overlapped = true
				}
			},
			"delete": func(t *rapid.T) {
				if aborted {
					return // the transaction has failed; nothing more is specified
				}
				k := rapid.SampledFrom(keys).Draw(t, "k")
				w.ops = append(w.ops, fmt.Sprintf("del(%s)", k))
				if err := w.p.Delete([]byte(k)); err != nil {
					w.fail("Delete failed: %v", err)
				}
				w.top()[k] = []byte{}
				if w.inflight != nil {
					w.overlapped = true
				}
			},
			"get": func(t *rapid.T) {
				if aborted {
					return // after a reported flush failure the transaction fails; later reads are not specified
				}
				k := rapid.SampledFrom(keys).Draw(t, "k")
				local := rapid.IntRange(0, 3).Draw(t, "local") == 0
				w.ops = append(w.ops, fmt.Sprintf("get(%s,local=%v)", k, local))
				want, found, level := w.read(k, local)
				var got []byte
				var err error
				if local {
					got, err = w.p.GetLocal(ctx, []byte(k))
				} else {
					var e kv.ValueEntry
					e, err = w.p.Get(ctx, []byte(k))
					got = e.Value
				}
				if !found {
					if !tikverr.IsErrNotFound(err) {
						w.fail("get(%s,local=%v) = %q, %v; model: not found", k, local, got, err)
					}
					return
				}
				if err != nil || !bytes.Equal(got, want) {
					w.fail("get(%s,local=%v) = %q, %v; model %q from the %s level", k, local, got, err, want, level)
				}
				if level == "flushed" {
					w.fellThrough = true
				}
				if w.inflight != nil {
					w.overlapped = true
				}
			},
			"batchGet": func(t *rapid.T) {
				if aborted {
					return // the transaction has failed; nothing more is specified
				}
				n := rapid.IntRange(1, 4).Draw(t, "n")
				var ks [][]byte
				var names []string
				for i := 0; i < n; i++ {
					k := rapid.SampledFrom(keys).Draw(t, "k")
					ks = append(ks, []byte(k))
					names = append(names, k)
				}
				w.ops = append(w.ops, fmt.Sprintf("batchGet(%v)", names))
				got, err := w.p.BatchGet(ctx, ks)
				if err != nil {
					w.fail("BatchGet failed: %v", err)
				}
				for _, k := range names {
					want, found, level := w.read(k, false)
					e, ok := got[k]
					if found != ok || (found && !bytes.Equal(e.Value, want)) {
						w.fail("BatchGet(%v)[%s] = %q present=%v; model %q present=%v (%s level)", names, k, e.Value, ok, want, found, level)
					}
					if level == "flushed" {
						w.fellThrough = true
					}
				}
			},
			"flush": func(t *rapid.T) {
				if aborted {
					return // the transaction has failed; nothing more is specified
				}
				force := rapid.Bool().Draw(t, "force")
				name := fmt.Sprintf("flush(force=%v)", force)
				w.ops = append(w.ops, name)
				if len(w.staged) > 0 {
					if _, err := w.p.Flush(force); err == nil {
						w.fail("%s inside an unreleased stage was accepted", name)
					}
					return
				}
				// forced: always; threshold-driven: enough keys buffered and no flush function running
				need := force || (len(w.mutableLen()) >= w.minKeys && w.inflight == nil)
				if !need {
					flushed, err := w.p.Flush(force)
					if flushed || err != nil {
						w.fail("%s = %v, %v; model: below the threshold or a flush is in flight -> (false, nil)", name, flushed, err)
					}
					return
				}
				var flushed bool
				var err error
				if w.inflight != nil {
					// the previous flush is still running: this call waits for it
					result := error(nil)
					if rapid.IntRange(0, 4).Draw(t, "prevfails") == 0 {
						result = injected
					}
					err = callBlocking(func() error { var e error; flushed, e = w.p.Flush(force); return e }, result)
					w.flushing = nil
					if result != nil {
						w.failed = true
						if err == nil {
							w.fail("%s: the previous flush failed but Flush reported no error (writes would be lost silently)", name)
						}
						aborted = true
						return
					}
				} else {
					flushed, err = w.p.Flush(force)
					if pendingErr != nil {
						// a flush that failed earlier must surface now
						if err == nil {
							w.fail("%s: an earlier flush failed but Flush reported no error", name)
						}
						pendingErr, aborted = nil, true
						w.flushing = nil
						return
					}
				}
				if err != nil || !flushed {
					w.fail("%s = %v, %v; model: a flush starts", name, flushed, err)
				}
				accepted(name)
			},
			"complete": func(t *rapid.T) {
				if w.inflight == nil {
					t.Skip()
				}
				var result error
				if rapid.IntRange(0, 5).Draw(t, "fails") == 0 {
					result = injected
					w.failed = true
				}
				w.ops = append(w.ops, fmt.Sprintf("completeFlush(err=%v)", result != nil))
				w.complete(result)
				pendingErr = result
				// wait until the buffer noticed (OnFlushing false)
				for i := 0; i < 20000 && w.p.OnFlushing(); i++ {
					time.Sleep(50 * time.Microsecond)
				}
			},
			"flushWait": func(t *rapid.T) {
				w.ops = append(w.ops, "flushWait")
				var err error
				if w.inflight != nil {
					result := error(nil)
					if rapid.IntRange(0, 4).Draw(t, "fails") == 0 {
						result = injected
						w.failed = true
					}
					err = callBlocking(func() error { return w.p.FlushWait() }, result)
					if (err != nil) != (result != nil) {
						w.fail("FlushWait = %v, the flush it waited for ended with %v", err, result)
					}
					if result != nil {
						aborted = true
					}
				} else {
					err = w.p.FlushWait()
					if (err != nil) != (pendingErr != nil) {
						w.fail("FlushWait = %v, model: pending flush result %v", err, pendingErr)
					}
					if pendingErr != nil {
						aborted = true
					}
					pendingErr = nil
				}
				w.flushing = nil
			},
			"staging": func(t *rapid.T) {
				if aborted {
					return
				}
				if len(w.staged) >= 2 {
					t.Skip()
				}
				w.ops = append(w.ops, "staging")
				w.p.Staging()
				w.staged = append(w.staged, map[string][]byte{})
			},
			"release": func(t *rapid.T) {
				if len(w.staged) == 0 {
					t.Skip()
				}
				w.ops = append(w.ops, "release")
				w.p.Release(len(w.staged))
				topm := w.staged[len(w.staged)-1]
				w.staged = w.staged[:len(w.staged)-1]
				for k, v := range topm {
					w.top()[k] = v
				}
			},
			"cleanup": func(t *rapid.T) {
				if len(w.staged) == 0 {
					t.Skip()
				}
				w.ops = append(w.ops, "cleanup")
				w.p.Cleanup(len(w.staged))
				w.staged = w.staged[:len(w.staged)-1]
			},
			"": func(t *rapid.T) {
				if n := atomic.LoadInt32(&w.overlap); n > 1 {
					w.fail("%d flush functions were running at the same time", n)
				}
				if got, want := w.p.Len(), len(w.mutableLen())+w.flushed; got != want {
					w.fail("Len() = %d, model %d (mutable %d + flushed %d)", got, want, len(w.mutableLen()), w.flushed)
				}
			},
		})
		if w.inflight != nil {
			w.complete(nil)
		}
		var shape []string
		for _, o := range w.ops {
			if i := strings.IndexByte(o, '('); i > 0 {
				o = o[:i]
			}
			shape = append(shape, o)
		}
		var classes []string
		for n, b := range map[string]bool{"read-fell-through-to-flushed": w.fellThrough, "flush-overlapped-by-ops": w.overlapped, "flush-failed": w.failed} {
			if b {
				classes = append(classes, n)
			}
		}
		sort.Strings(classes)
		ops := w.ops
		if len(ops) > 16 {
			ops = append(ops[:16:16], fmt.Sprintf("... %d more", len(w.ops)-16))
		}
		rec.Case(fmt.Sprintf("%d|%s", w.minKeys, strings.Join(shape, ",")), w.fellThrough || w.overlapped || w.failed, classes, ops)
	})
}

// mutableLen: keys counted by the mutable buffer's Len (all keys of the mutable view, tombstones included).
func (w *world) mutableLen() map[string][]byte { return w.mutableView() }

func fmtMap(m map[string][]byte) string {
	var ks []string
	for k := range m {
		ks = append(ks, k)
	}
	sort.Strings(ks)
	var sb strings.Builder
	for _, k := range ks {
		fmt.Fprintf(&sb, "%s=%q ", k, m[k])
	}
	return sb.String()
}
