package c16

import (
	"context"
	"fmt"
	"math"
	"sort"
	"strings"
	"sync"
	"testing"
	"time"

	"github.com/pingcap/failpoint"
	"github.com/pingcap/kvproto/pkg/kvrpcpb"
	tikverr "github.com/tikv/client-go/v2/error"
	"github.com/tikv/client-go/v2/tikv"
	"github.com/tikv/client-go/v2/verif/ev"
	"github.com/tikv/client-go/v2/verif/sim"
	"pgregory.net/rapid"
)

type pstep struct {
	op   string // set delete get batchget flush flushwait
	keys []string
	val  string
}

func (s pstep) String() string {
	switch s.op {
	case "set":
		return fmt.Sprintf("set(%s=%s)", s.keys[0], s.val)
	case "flush", "flushwait", "mayflush":
		return s.op
	}
	return fmt.Sprintf("%s(%s)", s.op, strings.Join(s.keys, ","))
}

// TestPipelinedTxn runs pipelined transactions end to end on unistore.
func TestPipelinedTxn(t *testing.T) {
	rec := ev.For(t, "C16", "pipelined transactions on unistore: initial committed data on some of 3-8 keys, 0-4 region splits (on the smallest / largest written key, or off keys), flush thresholds of 1-3 keys (failpoints), a program of 4-20 steps set / delete / get / batch-get / forced flush / threshold-driven flush / flush-wait, ended by Commit or Rollback; every read is compared with a model (latest own write, else the initial data); after the end the store is polled (no lock expires) until the asynchronous range resolution is over; oracle: after Commit every written key has its last value (or a delete record) with one common commit ts and no lock of the transaction remains on any key; after Rollback no record and no lock of the transaction remains; the Flush requests carry strictly increasing generations and every buffered mutation is sent by exactly one generation; non-trivial = at least two flush generations and a read that falls through to flushed data, or a written key that is a region start; distinct = case text")
	sim.EnableFailpoints()
	pool := []string{"a", "b", "c", "d", "e", "f", "g", "h"}
	var closing sync.WaitGroup
	defer closing.Wait()               // the process must not exit before the clusters are closed (each leaves a temp directory otherwise)
	pending := make(chan struct{}, 48) // clusters waiting out their 5 s close; each keeps about 60 MB alive
	rapid.Check(t, func(t *rapid.T) {
		nKeys := rapid.IntRange(3, 8).Draw(t, "nkeys")
		keys := append([]string{}, rapid.Permutation(pool).Draw(t, "keys")[:nKeys]...)
		sort.Strings(keys)
		key := func(name string) string { return rapid.SampledFrom(keys).Draw(t, name) }
		initial := map[string]string{}
		for _, k := range keys {
			if rapid.IntRange(0, 2).Draw(t, "init") == 0 {
				initial[k] = "i." + k
			}
		}
		var splits []string
		for i := rapid.IntRange(0, 4).Draw(t, "nsplits"); i > 0; i-- {
			k := key("splitkey")
			if rapid.IntRange(0, 2).Draw(t, "offkey") == 0 {
				k += "0"
			}
			splits = append(splits, k)
		}
		minKeys := rapid.IntRange(1, 3).Draw(t, "minflushkeys")
		var steps []pstep
		for i := rapid.IntRange(4, 20).Draw(t, "nsteps"); i > 0; i-- {
			s := pstep{op: rapid.SampledFrom([]string{"set", "set", "set", "set", "delete", "get", "get", "get", "batchget", "flush", "flush", "mayflush", "mayflush", "flushwait"}).Draw(t, "op")}
			switch s.op {
			case "set":
				s.keys, s.val = []string{key("k")}, fmt.Sprintf("v%d", i)
			case "delete", "get":
				s.keys = []string{key("k")}
			case "batchget":
				for j := rapid.IntRange(1, 4).Draw(t, "n"); j > 0; j-- {
					s.keys = append(s.keys, key("k"))
				}
			}
			steps = append(steps, s)
		}
		end := rapid.SampledFrom([]string{"commit", "commit", "rollback"}).Draw(t, "end")
		var ss []string
		for _, s := range steps {
			ss = append(ss, s.String())
		}
		desc := fmt.Sprintf("splits=%q initial=%v minFlushKeys=%d | %s | %s", splits, initial, minKeys, strings.Join(ss, " ; "), end)

		_ = failpoint.Enable("tikvclient/pipelinedMemDBMinFlushKeys", fmt.Sprintf("return(%d)", minKeys))
		_ = failpoint.Enable("tikvclient/pipelinedMemDBMinFlushSize", "return(1)")
		defer failpoint.Disable("tikvclient/pipelinedMemDBMinFlushKeys")
		defer failpoint.Disable("tikvclient/pipelinedMemDBMinFlushSize")
		cl, err := sim.NewCluster(sim.Uni, 1, 3)
		if err != nil {
			t.Fatalf("VERIF-INFRA: %v", err)
		}
		// closing a client waits for its background goroutines, and the range resolution of a pipelined transaction
		// ends with a 5 s grace sleep before its last broadcast: close in the background, at most 48 at a time
		defer func() {
			closing.Add(1)
			pending <- struct{}{}
			go func() { defer closing.Done(); cl.Close(); <-pending }()
		}()
		ctx := context.Background()
		if len(initial) > 0 {
			txn, _ := cl.Clients[1].Store.Begin()
			for k, v := range initial {
				_ = txn.Set([]byte(k), []byte(v))
			}
			if err := txn.Commit(ctx); err != nil {
				t.Fatalf("VERIF-INFRA: %v", err)
			}
			cl.Drain(2*time.Millisecond, 2*time.Second)
		}
		for _, k := range splits {
			cl.SplitAt(k)
		}
		txn, err := cl.Clients[0].Store.Begin(tikv.WithPipelinedTxn(rapid.IntRange(1, 4).Draw(t, "flushconc"), rapid.IntRange(1, 4).Draw(t, "resolveconc"), 0))
		if err != nil {
			t.Fatalf("VERIF-INFRA: begin pipelined: %v", err)
		}
		start := txn.StartTS()
		model := map[string]*string{} // own writes: nil = deleted
		lookup := func(k string) (string, bool) {
			if v, ok := model[k]; ok {
				if v == nil {
					return "", false
				}
				return *v, true
			}
			v, ok := initial[k]
			return v, ok
		}
		var log []string
		fail := func(f string, a ...any) {
			if sp := cl.StorePanic(); sp != "" {
				t.Skip("void case: " + sp) // substrate defect (13.6): the case says nothing about the client
			}
			t.Fatalf("pipelined transaction: %s\n  case: %s\n  log:\n    %s\n  rpc trace:\n    %s", fmt.Sprintf(f, a...), desc, strings.Join(log, "\n    "), strings.ReplaceAll(cl.Trace.Describe(), "\n", "\n    "))
		}
		fellThrough := false
		flushedKeys := map[string]bool{}
		noteFlushed := func() {
			for _, e := range cl.Trace.Since(0) {
				if r, ok := e.Req.(*kvrpcpb.FlushRequest); ok && r.StartTs == start {
					for _, m := range r.Mutations {
						flushedKeys[string(m.Key)] = true
					}
				}
			}
		}
		failed := ""
		for _, s := range steps {
			if failed != "" {
				break
			}
			switch s.op {
			case "set":
				if err := txn.Set([]byte(s.keys[0]), []byte(s.val)); err != nil {
					failed = err.Error()
					break
				}
				v := s.val
				model[s.keys[0]] = &v
			case "delete":
				if err := txn.Delete([]byte(s.keys[0])); err != nil {
					failed = err.Error()
					break
				}
				model[s.keys[0]] = nil
			case "get":
				noteFlushed()
				v, err := txn.Get(ctx, []byte(s.keys[0]))
				want, ok := lookup(s.keys[0])
				if err != nil && !tikverr.IsErrNotFound(err) {
					fail("get(%s) failed: %v", s.keys[0], err)
				}
				if (err == nil) != ok || (ok && string(v.Value) != want) {
					fail("get(%s) returned (%q, found=%v), the transaction's latest write / the initial data say (%q, found=%v)", s.keys[0], v.Value, err == nil, want, ok)
				}
				if _, own := model[s.keys[0]]; own && flushedKeys[s.keys[0]] {
					fellThrough = true
				}
			case "batchget":
				noteFlushed()
				var ks [][]byte
				for _, k := range s.keys {
					ks = append(ks, []byte(k))
				}
				m, err := txn.BatchGet(ctx, ks)
				if err != nil {
					fail("batchget(%v) failed: %v", s.keys, err)
				}
				for _, k := range s.keys {
					want, ok := lookup(k)
					got, gok := m[k]
					if gok != ok || (ok && string(got.Value) != want) {
						fail("batchget(%v) returned %s=(%q, found=%v), expected (%q, found=%v)", s.keys, k, got.Value, gok, want, ok)
					}
					if _, own := model[k]; own && flushedKeys[k] {
						fellThrough = true
					}
				}
			case "flush":
				if _, err := txn.GetMemBuffer().Flush(true); err != nil {
					failed = err.Error()
				}
			case "mayflush": // threshold-driven
				if _, err := txn.GetMemBuffer().Flush(false); err != nil {
					failed = err.Error()
				}
			case "flushwait":
				if err := txn.GetMemBuffer().FlushWait(); err != nil {
					failed = err.Error()
				}
			}
			log = append(log, s.String())
		}
		if failed != "" {
			fail("a step failed without any injected fault: %s", failed)
		}
		var endErr error
		if end == "commit" {
			endErr = txn.Commit(ctx)
		} else {
			endErr = txn.Rollback()
		}
		log = append(log, fmt.Sprintf("%s -> %v", end, endErr))
		if endErr != nil {
			fail("%s failed without any injected fault: %v", end, endErr)
		}
		// wait for the asynchronous range resolution (nothing expires: the clocks are untouched)
		probe := tikv.StoreProbe{KVStore: cl.Clients[2].Store}
		var left []string
		// (bounded by polls, not by a wall-clock deadline: a paused or starved process must not turn into a verdict)
		for poll := 0; ; poll++ {
			cl.Drain(3*time.Millisecond, time.Second)
			locks, err := probe.ScanLocks(ctx, nil, []byte{0xff, 0xff}, math.MaxUint64)
			if err != nil {
				t.Fatalf("VERIF-INFRA: %v", err)
			}
			left = nil
			for _, l := range locks {
				if l.TxnID == start {
					left = append(left, string(l.Key))
				}
			}
			if len(left) == 0 || poll >= 250 {
				break
			}
			time.Sleep(20 * time.Millisecond)
		}
		if len(left) > 0 {
			fail("after %s, locks of the transaction remain on %v although its range resolution has finished (no lock expired, no request lost)", end, left)
		}
		truth, err := cl.ReadTruth(cl.Clients[2], keys)
		if err != nil {
			t.Fatalf("VERIF-INFRA: %v", err)
		}
		var commitTS uint64
		for _, k := range keys {
			v := truth.Committed(k, start)
			w, own := model[k]
			switch {
			case end == "rollback" && v != nil:
				fail("after Rollback key %s carries a %s record of the transaction", k, v.Kind)
			case end == "commit" && own && v == nil:
				fail("after Commit key %s (written by the transaction) has no record of it; truth: %s", k, truth.Describe(keys))
			case end == "commit" && !own && v != nil:
				fail("after Commit key %s has a record of the transaction although it never wrote it", k)
			case end == "commit" && own:
				if commitTS != 0 && v.Commit != commitTS {
					fail("keys are committed at different timestamps %d and %d", commitTS, v.Commit)
				}
				commitTS = v.Commit
				if (w == nil) != (v.Kind == "del") || (w != nil && string(v.Value) != *w) {
					fail("key %s is committed as %s %q, the transaction's last write was %v", k, v.Kind, v.Value, w)
				}
			}
		}
		// flush generations: strictly increasing per request order, every key's latest flushed value consistent
		var lastGen uint64
		gens := map[uint64]bool{}
		for _, e := range cl.Trace.Since(0) {
			r, ok := e.Req.(*kvrpcpb.FlushRequest)
			if !ok || r.StartTs != start {
				continue
			}
			if r.Generation < lastGen {
				fail("flush generation %d was sent after generation %d", r.Generation, lastGen)
			}
			lastGen = r.Generation
			gens[r.Generation] = true
		}
		borderKey := false
		for k := range model {
			for _, s := range splits {
				if s == k {
					borderKey = true
				}
			}
		}
		rec.Case(desc, (len(gens) >= 2 && fellThrough) || borderKey, []string{"end=" + end, fmt.Sprintf("generations>=2=%v", len(gens) >= 2), fmt.Sprintf("read-flushed=%v", fellThrough), fmt.Sprintf("written-key-is-region-start=%v", borderKey)},
			map[string]any{"case": desc, "generations": len(gens)})
	})
}
