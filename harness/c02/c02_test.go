// Package c02 decides property C02: a client crash anywhere in Commit leaves an
// all-or-nothing, acknowledgement-consistent state once other clients recover it.
package c02

import (
	"context"
	"fmt"
	"math"
	"runtime/debug"
	"sort"
	"strings"
	"testing"
	"time"

	"github.com/tikv/client-go/v2/config"
	"github.com/tikv/client-go/v2/kv"
	"github.com/tikv/client-go/v2/tikv"
	"github.com/tikv/client-go/v2/verif/ev"
	_ "github.com/tikv/client-go/v2/verif/quiet"
	"github.com/tikv/client-go/v2/verif/sim"
	"pgregory.net/rapid"
)

var keyPool = []string{"a", "b", "c", "d", "e"}

// program is one crash scenario without the crash point.
type program struct {
	backend  sim.Backend
	nStores  int
	batch1   bool
	conc1    bool
	keys     []string
	splits   []string
	initial  []*sim.Step // txn 100 (client 1): initial data
	victim   []*sim.Step // txn 0 (client 0): begin ... (commit is appended by the runner)
	conflict []*sim.Step // txn 101 (client 1): commits after the victim began
	recovery []*sim.Step // txns 200.. (client 1) after the locks expired
}

func (p *program) String() string {
	str := func(ss []*sim.Step) string {
		var o []string
		for _, s := range ss {
			o = append(o, s.String())
		}
		return strings.Join(o, " ; ")
	}
	return fmt.Sprintf("backend=%v stores=%d batch1=%v conc1=%v splits=%q | init: %s | victim: %s | conflict: %s | recovery: %s",
		p.backend, p.nStores, p.batch1, p.conc1, p.splits, str(p.initial), str(p.victim), str(p.conflict), str(p.recovery))
}

func genProgram(t *rapid.T, backend sim.Backend) *program {
	p := &program{backend: backend, nStores: 1}
	if backend == sim.Mock {
		p.nStores = rapid.SampledFrom([]int{1, 3}).Draw(t, "stores")
	}
	p.batch1 = rapid.Bool().Draw(t, "batch1")
	p.conc1 = rapid.IntRange(0, 3).Draw(t, "conc1") != 0
	nKeys := rapid.IntRange(1, 4).Draw(t, "nkeys")
	p.keys = append([]string{}, rapid.Permutation(keyPool).Draw(t, "keys")[:nKeys]...)
	sort.Strings(p.keys)
	for i := rapid.IntRange(0, 2).Draw(t, "nsplits"); i > 0; i-- {
		k := rapid.SampledFrom(keyPool).Draw(t, "splitkey")
		if rapid.Bool().Draw(t, "offkey") {
			k += "0"
		}
		p.splits = append(p.splits, k)
	}
	key := func(name string) string { return rapid.SampledFrom(p.keys).Draw(t, name) }
	// initial data
	p.initial = []*sim.Step{{Txn: 100, Op: "begin", Client: 1}}
	for _, k := range p.keys {
		if rapid.Bool().Draw(t, "init") {
			p.initial = append(p.initial, &sim.Step{Txn: 100, Op: "set", Keys: []string{k}, Val: "i." + k})
		}
	}
	p.initial = append(p.initial, &sim.Step{Txn: 100, Op: "commit"})
	// victim
	pess := rapid.Bool().Draw(t, "pessimistic")
	b := &sim.Step{Txn: 0, Op: "begin", Client: 0, Pessimistic: pess}
	if backend == sim.Uni {
		switch rapid.IntRange(0, 3).Draw(t, "mode") {
		case 1:
			b.Async = true
		case 2:
			b.OnePC = true
		case 3:
			b.Async, b.OnePC = true, true
		}
	}
	p.victim = []*sim.Step{b}
	nOps := rapid.IntRange(1, 5).Draw(t, "nops")
	for j := 0; j < nOps; j++ {
		ops := []string{"set", "set", "set", "delete", "insert", "get"}
		if pess {
			ops = append(ops, "lock")
		}
		s := &sim.Step{Txn: 0, Op: rapid.SampledFrom(ops).Draw(t, "op"), Keys: []string{key("k")}}
		switch s.Op {
		case "set", "insert":
			s.Val = fmt.Sprintf("v.%d", j)
			s.LockFirst = pess && s.Op == "set"
		case "delete":
			s.LockFirst = pess
		}
		p.victim = append(p.victim, s)
	}
	// a conflicting commit after the victim began (makes Commit fail definitely for optimistic victims,
	// or pessimistic statements fail)
	if rapid.IntRange(0, 3).Draw(t, "conflict") == 0 {
		p.conflict = []*sim.Step{{Txn: 101, Op: "begin", Client: 1}, {Txn: 101, Op: "set", Keys: []string{key("ck")}, Val: "c"}, {Txn: 101, Op: "commit"}}
	}
	// recovery by the other client
	nRec := rapid.IntRange(1, 4).Draw(t, "nrec")
	for j := 0; j < nRec; j++ {
		id := 200 + j
		kinds := []string{"get", "batchget", "iter", "write", "lockwrite", "batchget"}
		if backend == sim.Mock {
			kinds = append(kinds, "iterrev")
		}
		p.recovery = append(p.recovery, &sim.Step{Txn: id, Op: "begin", Client: 1, Pessimistic: false})
		switch kind := rapid.SampledFrom(kinds).Draw(t, "rec"); kind {
		case "get":
			p.recovery = append(p.recovery, &sim.Step{Txn: id, Op: "get", Keys: []string{key("rk")}})
		case "batchget":
			p.recovery = append(p.recovery, &sim.Step{Txn: id, Op: "batchget", Keys: p.keys})
		case "iter":
			p.recovery = append(p.recovery, &sim.Step{Txn: id, Op: "iter", Lo: "a", Hi: ""})
		case "iterrev":
			p.recovery = append(p.recovery, &sim.Step{Txn: id, Op: "iterrev", Lo: "a", Hi: "~"})
		case "write":
			p.recovery = append(p.recovery, &sim.Step{Txn: id, Op: "set", Keys: []string{key("rk")}, Val: fmt.Sprintf("r.%d", j)})
		case "lockwrite":
			p.recovery[len(p.recovery)-1].Pessimistic = true
			p.recovery = append(p.recovery, &sim.Step{Txn: id, Op: "set", Keys: []string{key("rk")}, Val: fmt.Sprintf("r.%d", j), LockFirst: true})
		}
		p.recovery = append(p.recovery, &sim.Step{Txn: id, Op: "commit"})
	}
	return p
}

type outcome struct {
	viol      []sim.Violation
	infra     string
	hung      string
	rpcs      int // traced RPCs of the victim's Commit (sync + background)
	leftLocks int // locks in the store when the victim was dead / done, before recovery
	told      string
	victim    *sim.TxnRec
	fate      string
	log       []string
	truth     *sim.Truth
	trace     string
	entries   []*sim.Entry
}

// run executes the program with the victim crashing at its crashIdx-th commit RPC (mode kill = the request
// is never delivered, killAfter = delivered but the answer is lost with the process); crashIdx < 0 = no crash.
func run(p *program, crashIdx int, mode string) (res outcome) {
	oldBatch := kv.TxnCommitBatchSize.Load()
	if p.batch1 {
		kv.TxnCommitBatchSize.Store(1)
	}
	defer kv.TxnCommitBatchSize.Store(oldBatch)
	cfg := *config.GetGlobalConfig()
	orig := cfg
	if p.conc1 {
		cfg.CommitterConcurrency = 1
	}
	config.StoreGlobalConfig(&cfg)
	defer config.StoreGlobalConfig(&orig)

	cl, err := sim.NewCluster(p.backend, p.nStores, 3)
	if err != nil {
		res.infra = err.Error()
		return
	}
	defer cl.Close()
	for _, k := range p.splits {
		cl.SplitAt(k)
	}
	var failMsg string
	w := sim.NewWorld(cl, p.keys, func(f string, a ...any) {
		if failMsg == "" {
			failMsg = fmt.Sprintf(f, a...)
		}
	})
	done := make(chan struct{})
	go func() {
		defer close(done)
		defer func() {
			if r := recover(); r != nil && failMsg == "" {
				failMsg = fmt.Sprintf("panic during step %q: %v\n%s", w.Log[len(w.Log)-1], r, debug.Stack())
			}
		}()
		exec := func(ss []*sim.Step) {
			for _, s := range ss {
				if failMsg == "" {
					w.Exec(s)
				}
			}
		}
		exec(p.initial)
		exec(p.victim[:1])
		exec(p.conflict)
		exec(p.victim[1:])
		commit := &sim.Step{Txn: 0, Op: "commit", DrainArmed: true}
		if crashIdx >= 0 {
			commit.Faults = []sim.FaultSpec{{Type: "", Index: crashIdx, Action: mode}}
		}
		exec([]*sim.Step{commit})
		res.rpcs = w.LastCallRPCs
		if crashIdx >= 0 && !cl.Clients[0].Net.Dead() {
			// the crash point lies beyond this run's request count (concurrent batches vary): die now
			cl.Clients[0].Net.Kill()
			w.Txns[0].Ended = "killed"
		}
		if locks, err := (tikv.StoreProbe{KVStore: cl.Clients[2].Store}).ScanLocks(context.Background(), nil, []byte{0xff, 0xff}, math.MaxUint64); err == nil {
			res.leftLocks = len(locks)
		}
		cl.Expire()
		exec(p.recovery)
		if failMsg == "" {
			res.truth, err = w.Finish()
		}
	}()
	select {
	case <-done:
	case <-time.After(60 * time.Second):
		es := cl.Trace.Since(0)
		if len(es) > 40 {
			es = es[len(es)-40:]
		}
		var tail []string
		for _, e := range es {
			tail = append(tail, sim.DescribeEntry(e))
		}
		res.hung = fmt.Sprintf("case did not finish within 60 s; log:\n    %s\n  last RPCs:\n    %s", strings.Join(w.Log, "\n    "), strings.Join(tail, "\n    "))
		return
	}
	res.log = w.Log
	res.trace = cl.Trace.Describe()
	res.entries = cl.Trace.Since(0)
	res.victim = w.Txns[0]
	if failMsg != "" {
		res.viol = append(res.viol, sim.Violation{Rule: "actor", Msg: failMsg})
		return
	}
	if err != nil {
		res.infra = "recovery: " + err.Error()
		return
	}
	res.viol = sim.CheckHistory(w.Recs(), res.truth, p.keys, nil, cl.Trace.Since(0)...)
	v := res.victim
	o, _ := sim.OutcomeOf(v, res.truth)
	res.fate = "rolled-back"
	if o.Committed {
		res.fate = "committed"
	}
	res.told = "nothing"
	if v.Told {
		res.told = v.CommitClass
	}
	// every recovery read must have succeeded: the locks are expired, so no reader may be blocked forever
	if w.ReadErrs > 0 {
		res.viol = append(res.viol, sim.Violation{Rule: "recovery-read", Msg: fmt.Sprintf("%d reads failed although every lock of the dead client had expired", w.ReadErrs)})
	}
	return
}

const rule = "generated scenario = initial data, one victim transaction (optimistic | pessimistic with locked statements; on unistore also async-commit / 1PC) of 1-5 writes (set, delete, insert, lock-only) over 1-4 keys in 1-3 regions (commit batch size 1 or default, committer concurrency 1 or default, 1 or 3 stores), optionally a conflicting commit that makes the victim's Commit fail, and 1-4 recovery transactions of another client (get, batch-get, scan, reverse scan, optimistic write, pessimistic locked write); a fault-free run counts the N requests Commit issues (synchronous and background), then the scenario is re-run once per crash point i<N and mode (request i never delivered | delivered but the client dies before the answer), the victim client being dead (all its later requests fail) from that instant; then all locks expire, the recovery transactions run, an auditor resolves what is left and the raw MVCC records are read; oracle: single outcome and one commit ts over all written keys, outcome = committed if Commit had returned nil while alive, rolled back if it had returned a definite error, every recovery read equals the final truth at its snapshot (no partial view), no read blocked, no lock left, plus the C01 history rules; non-trivial = the dead client left at least one lock behind; distinct = scenario text + crash point"

func crashPoints(t *testing.T, backend sim.Backend) {
	rec := ev.For(t, "C02", rule)
	maxPoints := 12
	if ev.Thorough() {
		maxPoints = 1000
	}
	rapid.Check(t, func(t *rapid.T) {
		p := genProgram(t, backend)
		base := run(p, -1, "")
		if base.hung != "" {
			t.Fatalf("VERIF-INFRA: %s\n  scenario: %s", base.hung, p)
		}
		if base.infra != "" {
			t.Fatalf("VERIF-INFRA: %s | %s", base.infra, p)
		}
		report := func(o outcome, idx int, mode string) {
			if o.hung != "" {
				t.Fatalf("VERIF-INFRA: %s\n  crash=%s@%d\n  scenario: %s", o.hung, mode, idx, p)
			}
			if o.infra != "" {
				t.Fatalf("VERIF-INFRA: %s | crash=%s@%d | %s", o.infra, mode, idx, p)
			}
			if len(o.viol) > 0 {
				var vs []string
				for _, v := range o.viol {
					vs = append(vs, v.String())
				}
				t.Fatalf("crash recovery violates all-or-nothing / ack consistency:\n  %s\n  crash point: %s at commit RPC #%d of %d\n  scenario: %s\n  told=%s fate=%s\n  log:\n    %s\n  truth: %s\n  rpc trace:\n    %s",
					strings.Join(vs, "\n  "), mode, idx, base.rpcs, p, o.told, o.fate, strings.Join(o.log, "\n    "), o.truth.Describe(p.keys), strings.ReplaceAll(o.trace, "\n", "\n    "))
			}
		}
		report(base, -1, "none")
		if base.victim == nil {
			return
		}
		if base.victim.CommitClass == "undetermined" {
			t.Fatalf("fault-free Commit returned undetermined: %s", p)
		}
		n := base.rpcs
		var points []int
		for i := 0; i < n; i++ {
			points = append(points, i)
		}
		if len(points) > maxPoints {
			// evenly spaced subset, always including first and last
			var sub []int
			for j := 0; j < maxPoints; j++ {
				sub = append(sub, points[j*(len(points)-1)/(maxPoints-1)])
			}
			points = sub
		}
		rec.Case(fmt.Sprintf("%s|none", p), false, []string{"crash=none", "base-commit=" + base.victim.CommitClass}, nil)
		for _, i := range points {
			for _, mode := range []string{"kill", "killAfter"} {
				o := run(p, i, mode)
				report(o, i, mode)
				classes := []string{"crash=" + mode, "told=" + o.told, "fate=" + o.fate, fmt.Sprintf("left-locks=%v", o.leftLocks > 0), "backend=" + backend.String()}
				if o.victim != nil {
					classes = append(classes, "path="+sim.ModeOf(o.entries, o.victim.StartTS))
				}
				if o.victim != nil && o.victim.Pessimistic {
					classes = append(classes, "victim=pessimistic")
				} else {
					classes = append(classes, "victim=optimistic")
				}
				var sample map[string]any
				if o.leftLocks > 0 {
					sample = map[string]any{"scenario": p.String(), "crash": fmt.Sprintf("%s@%d/%d", mode, i, n), "told": o.told, "fate": o.fate, "locks_left_by_dead_client": o.leftLocks}
				}
				rec.Case(fmt.Sprintf("%s|%s@%d", p, mode, i), o.leftLocks > 0, classes, sample)
			}
		}
	})
}

func TestCrashPoints(t *testing.T)    { crashPoints(t, sim.Mock) }
func TestCrashPointsUni(t *testing.T) { crashPoints(t, sim.Uni) }
