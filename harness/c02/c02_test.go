// Package c02 decides property C02: a client crash anywhere in Commit leaves an
// all-or-nothing, acknowledgement-consistent state once other clients recover it.
package c02

import (
	"fmt"
	"testing"

	"github.com/tikv/client-go/v2/verif/ev"
	_ "github.com/tikv/client-go/v2/verif/quiet"
	"github.com/tikv/client-go/v2/verif/scen"
	"github.com/tikv/client-go/v2/verif/sim"
	"pgregory.net/rapid"
)

const rule = "generated scenario = initial data, one victim transaction (optimistic | pessimistic with locked statements; on unistore also async-commit / 1PC) of 1-5 writes (set, delete, insert, lock-only) over 1-4 keys in 1-3 regions (commit batch size 1 or default, committer concurrency 1 or default, 1 or 3 stores), optionally a conflicting commit that makes the victim's Commit fail, and 1-4 recovery transactions of another client (get, batch-get, scan, reverse scan, optimistic write, pessimistic locked write); a fault-free run counts the N requests Commit issues (synchronous and background), then the scenario is re-run once per crash point i<N and mode (request i never delivered | delivered but the client dies before the answer), the victim client being dead (all its later requests fail) from that instant; then all locks expire, the recovery transactions run, an auditor resolves what is left and the raw MVCC records are read; oracle: single outcome and one commit ts over all written keys, outcome = committed if Commit had returned nil while alive, rolled back if it had returned a definite error, every recovery read equals the final truth at its snapshot (no partial view), no read blocked, every call finishes within 30000 requests (back-off sleeps are virtual), no lock left, non-trivial = the dead client left at least one lock behind; distinct = scenario text + crash point"

func crashPoints(t *testing.T, backend sim.Backend) {
	rec := ev.For(t, "C02", rule)
	maxPoints := 12
	if ev.Thorough() {
		maxPoints = 1000
	}
	rapid.Check(t, func(t *rapid.T) {
		p := scen.Gen(t, backend)
		report := func(o scen.Outcome, idx int, mode string, n int) {
			if o.Hung != "" {
				t.Fatalf("VERIF-INFRA: %s\n  crash=%s@%d\n  scenario: %s", o.Hung, mode, idx, p)
			}
			if o.Void != "" {
				t.Skip("void case: " + o.Void)
			}
			if o.Infra != "" {
				t.Fatalf("VERIF-INFRA: %s | crash=%s@%d | %s", o.Infra, mode, idx, p)
			}
			// every recovery read must have succeeded: the locks are expired, so no reader may be blocked forever
			if o.ReadErrs > 0 {
				o.Viol = append(o.Viol, sim.Violation{Rule: "recovery-read", Msg: fmt.Sprintf("%d reads failed although every lock of the dead client had expired", o.ReadErrs)})
			}
			var real []sim.Violation
			for _, v := range o.Viol {
				if v.Known != "" && rec.Excluding(v.Known) {
					continue
				}
				real = append(real, v)
			}
			if o.Viol = real; len(real) > 0 {
				t.Fatalf("crash recovery violates all-or-nothing / ack consistency:\n  crash point: %s at commit RPC #%d of %d\n  %s", mode, idx, n, o.Describe(p))
			}
		}
		// acknowledgement consistency, atomicity (always on), no partial snapshot (read), no lock left; the other
		// isolation rules belong to C01
		rules := map[string]bool{"ack": true, "read": true, "nolock": true}
		base := scen.Run(p, scen.Opts{Rules: rules})
		report(base, -1, "none", base.RPCs)
		if base.Victim == nil {
			return
		}
		if base.Victim.CommitClass == "undetermined" {
			t.Fatalf("fault-free Commit returned undetermined: %s", p)
		}
		n := base.RPCs
		var points []int
		for i := 0; i < n; i++ {
			points = append(points, i)
		}
		if len(points) > maxPoints {
			// evenly spaced subset, always including first and last
			var sub []int
			for j := 0; j < maxPoints; j++ {
				sub = append(sub, points[j*(len(points)-1)/(maxPoints-1)])
			}
			points = sub
		}
		rec.Case(fmt.Sprintf("%s|none", p), false, []string{"crash=none", "base-commit=" + base.Victim.CommitClass}, nil)
		for _, i := range points {
			for _, mode := range []string{"kill", "killAfter"} {
				o := scen.Run(p, scen.Opts{Faults: []sim.FaultSpec{{Type: "", Index: i, Action: mode}}, KillIfAlive: true, Rules: rules})
				report(o, i, mode, n)
				classes := []string{"crash=" + mode, "told=" + o.Told, "fate=" + o.Fate, fmt.Sprintf("left-locks=%v", o.LeftLocks > 0), "backend=" + backend.String()}
				if i >= base.SyncRPCs {
					classes = append(classes, "phase=background")
				} else {
					classes = append(classes, "phase=synchronous")
				}
				if o.Victim != nil {
					classes = append(classes, "path="+sim.ModeOf(o.Entries, o.Victim.StartTS))
					if o.Victim.Pessimistic {
						classes = append(classes, "victim=pessimistic")
					} else {
						classes = append(classes, "victim=optimistic")
					}
				}
				var sample map[string]any
				if o.LeftLocks > 0 {
					sample = map[string]any{"scenario": p.String(), "crash": fmt.Sprintf("%s@%d/%d", mode, i, n), "told": o.Told, "fate": o.Fate, "locks_left_by_dead_client": o.LeftLocks}
				}
				rec.Case(fmt.Sprintf("%s|%s@%d", p, mode, i), o.LeftLocks > 0, classes, sample)
			}
		}
	})
}

func TestCrashPoints(t *testing.T)    { crashPoints(t, sim.Mock) }
func TestCrashPointsUni(t *testing.T) { crashPoints(t, sim.Uni) }
