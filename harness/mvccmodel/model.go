// Package mvccmodel is a small in-memory reference model of Percolator MVCC as TiKV
// implements it (contract: DESIGN.md Appendix A). It is the oracle of check C12 and
// is written from the semantics the property statement spells out, not from the mock.
package mvccmodel

import (
	"bytes"
	"math"
	"sort"
)

// Kind of a lock / write record.
type Kind int

const (
	Put Kind = iota
	Del
	Lock
	Rollback
	Pessimistic
)

func (k Kind) String() string { return [...]string{"Put", "Del", "Lock", "Rollback", "Pessimistic"}[k] }

// LockRec is a lock on a key.
type LockRec struct {
	Start     uint64
	Primary   string
	Kind      Kind
	Value     []byte
	TTL       uint64
	ForUpdate uint64
	MinCommit uint64
}

// Write is a committed record (a rollback marker has Commit == Start).
type Write struct {
	Commit, Start uint64
	Kind          Kind
	Value         []byte
}

// Key state.
type Key struct {
	Lock   *LockRec
	Writes []Write // commit descending
}

// Store is the model store.
type Store struct {
	Keys map[string]*Key
}

// New returns an empty store.
func New() *Store { return &Store{Keys: map[string]*Key{}} }

func (s *Store) key(k string) *Key {
	x := s.Keys[k]
	if x == nil {
		x = &Key{}
		s.Keys[k] = x
	}
	return x
}

// SortedKeys returns all keys ever touched, ascending.
func (s *Store) SortedKeys() []string {
	ks := make([]string, 0, len(s.Keys))
	for k := range s.Keys {
		ks = append(ks, k)
	}
	sort.Strings(ks)
	return ks
}

func (k *Key) addWrite(w Write) {
	k.Writes = append(k.Writes, w)
	sort.SliceStable(k.Writes, func(i, j int) bool { return k.Writes[i].Commit > k.Writes[j].Commit })
}

// Visible returns the value visible at ts (newest Put/Del with commit <= ts).
func (k *Key) Visible(ts uint64) ([]byte, bool) {
	for _, w := range k.Writes {
		if w.Commit <= ts && (w.Kind == Put || w.Kind == Del) {
			if w.Kind == Put {
				return w.Value, true
			}
			return nil, false
		}
	}
	return nil, false
}

func (k *Key) ownWrite(start uint64) *Write {
	for i := range k.Writes {
		if k.Writes[i].Start == start {
			return &k.Writes[i]
		}
	}
	return nil
}

func (k *Key) hasMarker(start uint64) bool {
	for _, w := range k.Writes {
		if w.Kind == Rollback && w.Start == start {
			return true
		}
	}
	return false
}

// Result classes.
const (
	OK               = "ok"
	Locked           = "locked"
	WriteConflict    = "write-conflict"
	AlreadyExist     = "already-exist"
	AlreadyRolledBk  = "already-rolled-back"
	Abort            = "abort"
	Retryable        = "retryable"
	AlreadyCommitted = "already-committed"
	CommitTSExpired  = "commit-ts-expired"
	TxnNotFound      = "txn-not-found"
	Refused          = "refused" // any error: used where only rejection is specified
	ErrOther         = "error"
)

// Res is the reference answer to one per-key step: the set of acceptable classes
// (more than one where the statement does not say which of two applicable errors wins).
type Res struct {
	Classes  []string
	LockInfo *LockRec // for Locked
	CommitTS uint64   // for AlreadyCommitted / status
}

func one(c string) Res { return Res{Classes: []string{c}} }

// Accepts reports whether class c is acceptable.
func (r Res) Accepts(c string) bool {
	for _, x := range r.Classes {
		if x == c || (x == Refused && c != OK) {
			return true
		}
	}
	return false
}

// IsOK reports whether the reference answer is success.
func (r Res) IsOK() bool { return len(r.Classes) == 1 && r.Classes[0] == OK }

// ---------------------------------------------------------------- reads

// ReadRes is the outcome of a point read.
type ReadRes struct {
	Locked *LockRec
	Value  []byte
	Found  bool
}

// Get reads key at ts under snapshot isolation with a resolved-lock set.
func (s *Store) Get(key string, ts uint64, resolved []uint64) ReadRes {
	k := s.Keys[key]
	if k == nil {
		return ReadRes{}
	}
	if l := k.Lock; l != nil && (l.Kind == Put || l.Kind == Del) && l.Start <= ts {
		skip := false
		if ts == math.MaxUint64 && l.Primary == key {
			ts = l.Start - 1
			skip = true
		}
		for _, r := range resolved {
			if r == l.Start {
				skip = true
			}
		}
		if !skip {
			return ReadRes{Locked: l}
		}
	}
	v, ok := k.Visible(ts)
	return ReadRes{Value: v, Found: ok}
}

// ScanItem is one element of a scan result.
type ScanItem struct {
	Key string
	ReadRes
}

// Scan returns the per-key gets of [start,end) in ascending (or descending) order cut at limit;
// keys that are not found contribute nothing, locked keys contribute an error item.
func (s *Store) Scan(start, end string, limit int, ts uint64, resolved []uint64, reverse bool) []ScanItem {
	ks := s.SortedKeys()
	if reverse {
		for i, j := 0, len(ks)-1; i < j; i, j = i+1, j-1 {
			ks[i], ks[j] = ks[j], ks[i]
		}
	}
	var out []ScanItem
	for _, k := range ks {
		if len(out) >= limit {
			break
		}
		if k < start || (end != "" && k >= end) {
			continue
		}
		r := s.Get(k, ts, resolved)
		if r.Locked != nil || r.Found {
			out = append(out, ScanItem{k, r})
		}
	}
	return out
}

// ---------------------------------------------------------------- prewrite

// Mutation of a prewrite.
type Mutation struct {
	Key   string
	Op    string // put | del | lock | insert | check-not-exists
	Value []byte
	// PessimisticCheck: the key is expected to carry the txn's pessimistic lock (DO_PESSIMISTIC_CHECK)
	PessimisticCheck bool
}

// PrewriteReq is one prewrite request.
type PrewriteReq struct {
	Start, TTL, ForUpdate, MinCommit uint64
	Primary                          string
	Mutations                        []Mutation
	Resolved                         []uint64
}

// Prewrite is all-or-nothing per request. It returns one Res per mutation that produced an answer.
func (s *Store) Prewrite(req PrewriteReq) (results []Res, applied bool) {
	type pending struct {
		key  string
		lock *LockRec
	}
	var todo []pending
	anyErr := false
	for _, m := range req.Mutations {
		k := s.key(m.Key)
		if (m.Op == "insert" || m.Op == "check-not-exists") && req.ForUpdate == 0 {
			// an optimistic insert must find no visible value at its start ts
			if l := k.Lock; l != nil && l.Start != req.Start && (l.Kind == Put || l.Kind == Del) && l.Start <= req.Start {
				resolved := false
				for _, r := range req.Resolved {
					if r == l.Start {
						resolved = true
					}
				}
				if !resolved {
					results = append(results, Res{Classes: []string{Locked}, LockInfo: l})
					anyErr = true
					continue
				}
			}
			if _, ok := k.Visible(req.Start); ok {
				results = append(results, one(AlreadyExist))
				anyErr = true
				continue
			}
		}
		if m.Op == "check-not-exists" {
			// no lock is written, but the check stops at any foreign lock, and a version newer than start ts
			// (or the txn's own rollback marker) fails it
			if l := k.Lock; l != nil && l.Start != req.Start {
				results = append(results, Res{Classes: []string{Locked}, LockInfo: l})
				anyErr = true
				continue
			}
			var classes []string
			if k.hasMarker(req.Start) {
				classes = append(classes, AlreadyRolledBk)
			}
			if len(k.Writes) > 0 && k.Writes[0].Commit > req.Start {
				classes = append(classes, WriteConflict)
			}
			if len(classes) > 0 {
				results = append(results, Res{Classes: classes})
				anyErr = true
			}
			continue
		}
		r, lock := s.prewriteOne(k, m, req)
		results = append(results, r)
		if !r.IsOK() {
			anyErr = true
		} else if lock != nil {
			todo = append(todo, pending{m.Key, lock})
		}
	}
	if anyErr {
		return results, false
	}
	for _, p := range todo {
		s.key(p.key).Lock = p.lock
	}
	return results, true
}

func (s *Store) prewriteOne(k *Key, m Mutation, req PrewriteReq) (Res, *LockRec) {
	ttl, minCommit := req.TTL, req.MinCommit
	if l := k.Lock; l != nil {
		if l.Start != req.Start {
			li := *l
			if m.PessimisticCheck {
				li.TTL = 0
			}
			return Res{Classes: []string{Locked}, LockInfo: &li}, nil
		}
		if l.Kind != Pessimistic {
			return one(OK), nil // idempotent: the txn's own prewrite lock is already there
		}
		// the txn's own pessimistic lock is converted; NO write-conflict re-check (TiKV)
		if l.TTL > ttl {
			ttl = l.TTL
		}
		if l.MinCommit > minCommit {
			minCommit = l.MinCommit
		}
	} else {
		if m.PessimisticCheck {
			return one(Abort), nil
		}
		// rollback marker of this txn => rejected; newer commit => write conflict. When both apply either is fine.
		var classes []string
		if k.hasMarker(req.Start) {
			classes = append(classes, AlreadyRolledBk)
		}
		if len(k.Writes) > 0 && k.Writes[0].Commit > req.Start {
			classes = append(classes, WriteConflict)
		}
		if len(classes) > 0 {
			return Res{Classes: classes}, nil
		}
	}
	kind := Put
	switch m.Op {
	case "del":
		kind = Del
	case "lock":
		kind = Lock
	}
	lock := &LockRec{Start: req.Start, Primary: req.Primary, Kind: kind, Value: m.Value, TTL: ttl}
	if req.Primary == m.Key {
		lock.MinCommit = minCommit
	}
	return one(OK), lock
}

// ---------------------------------------------------------------- pessimistic lock

// PLockReq is a pessimistic lock request (no-wait).
type PLockReq struct {
	Start, ForUpdate, TTL, MinCommit uint64
	Primary                          string
	Keys                             []string
	ReturnValues, CheckExistence     bool
	LockOnlyIfExists                 bool
	AssertNotExist                   bool
	ForceLock                        bool
}

// PLockKeyRes is the per-key reference answer.
type PLockKeyRes struct {
	Res
	Value              []byte
	Exists             bool
	LockedWithConflict uint64
}

// PessimisticLock is all-or-nothing per request. It evaluates every key; a no-wait store stops at its first "locked" answer.
func (s *Store) PessimisticLock(req PLockReq) (results []PLockKeyRes, applied bool) {
	type pending struct {
		key  string
		lock *LockRec
	}
	var todo []pending
	anyErr := false
	for _, key := range req.Keys {
		k := s.key(key)
		r, lock := s.plockOne(k, key, req)
		results = append(results, r)
		if !r.IsOK() {
			anyErr = true
			// no-wait: the real store stops at the first key answered "locked" (not at a deadlock answer);
			// which of the two it is cannot be predicted here, so all keys are evaluated and the caller aligns.
		} else if lock != nil {
			todo = append(todo, pending{key, lock})
		}
	}
	if anyErr {
		return results, false
	}
	for _, p := range todo {
		s.key(p.key).Lock = p.lock
	}
	return results, true
}

func (s *Store) plockOne(k *Key, key string, req PLockReq) (PLockKeyRes, *LockRec) {
	if req.LockOnlyIfExists && !req.ReturnValues {
		return PLockKeyRes{Res: one(ErrOther)}, nil
	}
	own := false
	if l := k.Lock; l != nil {
		if l.Start != req.Start {
			return PLockKeyRes{Res: Res{Classes: []string{Locked, "deadlock"}, LockInfo: l}}, nil
		}
		if l.Kind != Pessimistic {
			// TiKV refuses a pessimistic lock request over the txn's own prewrite lock
			return PLockKeyRes{Res: one(Refused)}, nil
		}
		own = true
	}
	conflict := uint64(0)
	if len(k.Writes) > 0 && k.Writes[0].Commit > req.ForUpdate {
		if !req.ForceLock {
			cls := []string{WriteConflict}
			if k.hasMarker(req.Start) {
				cls = append(cls, AlreadyRolledBk)
			}
			return PLockKeyRes{Res: Res{Classes: cls}}, nil
		}
		conflict = k.Writes[0].Commit
	}
	if k.hasMarker(req.Start) {
		return PLockKeyRes{Res: one(AlreadyRolledBk)}, nil
	}
	// newest data record (Put/Del), whatever its commit ts (<= for-update ts unless force-locking)
	var val []byte
	exists := false
	sawData := false
	for _, w := range k.Writes {
		if w.Kind == Put || w.Kind == Lock {
			if req.AssertNotExist && !sawData {
				// mock (and the statement is silent): a Put or Lock record counts as existing
				if conflict != 0 {
					return PLockKeyRes{Res: one(WriteConflict)}, nil
				}
				return PLockKeyRes{Res: one(AlreadyExist)}, nil
			}
		}
		if w.Kind == Del && !sawData {
			if req.LockOnlyIfExists && conflict != 0 {
				return PLockKeyRes{Res: one(WriteConflict)}, nil
			}
		}
		if (w.Kind == Put || w.Kind == Del) && !sawData {
			sawData = true
			if w.Kind == Put {
				val, exists = w.Value, true
			}
			break
		}
	}
	res := PLockKeyRes{Res: one(OK), LockedWithConflict: conflict}
	if req.ReturnValues || conflict != 0 {
		res.Value, res.Exists = val, exists
	} else if req.CheckExistence {
		res.Exists = exists
	}
	if req.LockOnlyIfExists && !exists {
		return res, nil
	}
	if own && k.Lock.ForUpdate >= req.ForUpdate {
		return res, nil // already locked at this or a newer for-update ts
	}
	return res, &LockRec{Start: req.Start, Primary: req.Primary, Kind: Pessimistic, TTL: req.TTL, ForUpdate: req.ForUpdate, MinCommit: req.MinCommit}
}

// PessimisticRollback removes the txn's pessimistic locks with for-update ts <= forUpdate.
func (s *Store) PessimisticRollback(keys []string, start, forUpdate uint64) {
	for _, key := range keys {
		k := s.key(key)
		if l := k.Lock; l != nil && l.Kind == Pessimistic && l.Start == start && l.ForUpdate <= forUpdate {
			k.Lock = nil
		}
	}
}

// ---------------------------------------------------------------- commit / rollback

func writeKind(l *LockRec) Kind {
	switch l.Kind {
	case Put:
		return Put
	case Del:
		return Del
	default: // Lock, and a leftover pessimistic lock: committing it changes no data (TiKV)
		return Lock
	}
}

// Commit commits the keys in order, all-or-nothing; the first failing key decides the answer.
func (s *Store) Commit(keys []string, start, commit uint64) Res {
	type pending struct {
		key string
		w   Write
	}
	var todo []pending
	for _, key := range keys {
		k := s.key(key)
		if l := k.Lock; l != nil && l.Start == start {
			if l.MinCommit > commit {
				return one(CommitTSExpired)
			}
			todo = append(todo, pending{key, Write{Commit: commit, Start: start, Kind: writeKind(l), Value: l.Value}})
			continue
		}
		if w := k.ownWrite(start); w != nil && w.Kind != Rollback {
			continue // already committed: idempotent
		}
		return one(Retryable)
	}
	for _, p := range todo {
		k := s.key(p.key)
		k.Lock = nil
		k.addWrite(p.w)
	}
	return one(OK)
}

func (k *Key) rollback(start uint64) {
	k.Lock = nil
	if !k.hasMarker(start) {
		k.addWrite(Write{Commit: start, Start: start, Kind: Rollback})
	}
}

// BatchRollback rolls the keys back in order, all-or-nothing.
func (s *Store) BatchRollback(keys []string, start uint64) Res {
	var todo []string
	for _, key := range keys {
		k := s.key(key)
		if l := k.Lock; l != nil && l.Start == start {
			todo = append(todo, key)
			continue
		}
		if w := k.ownWrite(start); w != nil {
			if w.Kind != Rollback {
				return Res{Classes: []string{AlreadyCommitted}, CommitTS: w.Commit}
			}
			continue
		}
		todo = append(todo, key)
	}
	for _, key := range todo {
		k := s.key(key)
		if l := k.Lock; l != nil && l.Start == start {
			k.rollback(start)
		} else if !k.hasMarker(start) {
			k.addWrite(Write{Commit: start, Start: start, Kind: Rollback})
		}
	}
	return one(OK)
}

// Physical part of a TSO timestamp (milliseconds).
func Physical(ts uint64) uint64 { return ts >> 18 }

func expired(l *LockRec, current uint64) bool {
	return Physical(l.Start)+l.TTL < Physical(current)
}

// Cleanup rolls the txn back on key if its lock expired (or current == 0); the marker is persisted.
func (s *Store) Cleanup(key string, start, current uint64) Res {
	k := s.key(key)
	if l := k.Lock; l != nil && l.Start == start {
		if current == 0 || expired(l, current) {
			k.rollback(start)
			return one(OK)
		}
		return Res{Classes: []string{Locked}, LockInfo: l}
	}
	if w := k.ownWrite(start); w != nil {
		if w.Kind != Rollback {
			return Res{Classes: []string{AlreadyCommitted}, CommitTS: w.Commit}
		}
		return one(OK)
	}
	k.addWrite(Write{Commit: start, Start: start, Kind: Rollback})
	return one(OK)
}

// StatusRes is the reference answer of CheckTxnStatus.
type StatusRes struct {
	Res
	TTL, CommitTS uint64
	Action        string
}

// CheckTxnStatus per Appendix A.
func (s *Store) CheckTxnStatus(primary string, lockTS, callerStart, current uint64, rollbackIfNotExist, resolvingPessimistic bool) StatusRes {
	k := s.key(primary)
	if l := k.Lock; l != nil && l.Start == lockTS {
		if expired(l, current) {
			if resolvingPessimistic && l.Kind == Pessimistic {
				k.Lock = nil
				return StatusRes{Res: one(OK), Action: "TTLExpirePessimisticRollback"}
			}
			k.rollback(lockTS)
			return StatusRes{Res: one(OK), Action: "TTLExpireRollback"}
		}
		action := "NoAction"
		if callerStart == math.MaxUint64 {
			action = "MinCommitTSPushed"
		} else if l.MinCommit > 0 {
			action = "MinCommitTSPushed"
			if l.MinCommit < callerStart+1 {
				l.MinCommit = callerStart + 1
				if l.MinCommit < current {
					l.MinCommit = current
				}
			}
		}
		return StatusRes{Res: one(OK), TTL: l.TTL, Action: action}
	}
	if w := k.ownWrite(lockTS); w != nil {
		if w.Kind != Rollback {
			return StatusRes{Res: one(OK), CommitTS: w.Commit, Action: "NoAction"}
		}
		return StatusRes{Res: one(OK), Action: "NoAction"}
	}
	if rollbackIfNotExist {
		if resolvingPessimistic {
			return StatusRes{Res: one(OK), Action: "LockNotExistDoNothing"}
		}
		k.addWrite(Write{Commit: lockTS, Start: lockTS, Kind: Rollback})
		return StatusRes{Res: one(OK), Action: "LockNotExistRollback"}
	}
	return StatusRes{Res: one(TxnNotFound), Action: "NoAction"}
}

// TxnHeartBeat extends the ttl of the txn's primary lock.
func (s *Store) TxnHeartBeat(primary string, start, advise uint64) (uint64, Res) {
	k := s.key(primary)
	if l := k.Lock; l != nil && l.Start == start {
		if l.Primary != primary {
			return 0, one(ErrOther)
		}
		if advise > l.TTL {
			l.TTL = advise
		}
		return l.TTL, one(OK)
	}
	return 0, one(ErrOther)
}

// ResolveLock commits (commit > 0) or rolls back every lock of start in [from,to).
func (s *Store) ResolveLock(from, to string, start, commit uint64) {
	s.BatchResolveLock(from, to, map[uint64]uint64{start: commit})
}

// BatchResolveLock resolves the locks of several txns.
func (s *Store) BatchResolveLock(from, to string, txns map[uint64]uint64) {
	for _, key := range s.SortedKeys() {
		if key < from || (to != "" && key >= to) {
			continue
		}
		k := s.Keys[key]
		l := k.Lock
		if l == nil {
			continue
		}
		commit, ok := txns[l.Start]
		if !ok {
			continue
		}
		if commit > 0 {
			k.Lock = nil
			k.addWrite(Write{Commit: commit, Start: l.Start, Kind: writeKind(l), Value: l.Value})
		} else {
			k.rollback(l.Start)
		}
	}
}

// LockAt is one ScanLock item.
type LockAt struct {
	Key string
	*LockRec
}

// ScanLock returns the locks with start <= maxTS in [from,to) in key order.
func (s *Store) ScanLock(from, to string, maxTS uint64) []LockAt {
	var out []LockAt
	for _, key := range s.SortedKeys() {
		if key < from || (to != "" && key >= to) {
			continue
		}
		if l := s.Keys[key].Lock; l != nil && l.Start <= maxTS {
			out = append(out, LockAt{key, l})
		}
	}
	return out
}

// GC refuses over a lock at or below safe; otherwise per key keeps the newest Put with commit <= safe,
// drops everything older and every Del/Lock/Rollback record <= safe.
func (s *Store) GC(from, to string, safe uint64) Res {
	var keys []string
	for _, key := range s.SortedKeys() {
		if key < from || (to != "" && key >= to) {
			continue
		}
		if l := s.Keys[key].Lock; l != nil && l.Start <= safe {
			return one(ErrOther)
		}
		keys = append(keys, key)
	}
	for _, key := range keys {
		k := s.Keys[key]
		var kept []Write
		seenData := false
		for _, w := range k.Writes {
			if w.Commit > safe {
				kept = append(kept, w)
				continue
			}
			if w.Kind == Put || w.Kind == Del {
				if !seenData && w.Kind == Put {
					kept = append(kept, w)
				}
				seenData = true
			}
		}
		k.Writes = kept
	}
	return one(OK)
}

// Clone deep-copies the store.
func (s *Store) Clone() *Store {
	c := New()
	for name, k := range s.Keys {
		nk := &Key{}
		if k.Lock != nil {
			l := *k.Lock
			l.Value = append([]byte(nil), k.Lock.Value...)
			nk.Lock = &l
		}
		for _, w := range k.Writes {
			w.Value = append([]byte(nil), w.Value...)
			nk.Writes = append(nk.Writes, w)
		}
		c.Keys[name] = nk
	}
	return c
}

// Equal compares two stores (for idempotence checks).
func (s *Store) Equal(o *Store) bool {
	for _, name := range append(s.SortedKeys(), o.SortedKeys()...) {
		a, b := s.Keys[name], o.Keys[name]
		if a == nil {
			a = &Key{}
		}
		if b == nil {
			b = &Key{}
		}
		if (a.Lock == nil) != (b.Lock == nil) || len(a.Writes) != len(b.Writes) {
			return false
		}
		if a.Lock != nil {
			x, y := *a.Lock, *b.Lock
			if x.Start != y.Start || x.Primary != y.Primary || x.Kind != y.Kind || !bytes.Equal(x.Value, y.Value) || x.TTL != y.TTL || x.ForUpdate != y.ForUpdate || x.MinCommit != y.MinCommit {
				return false
			}
		}
		for i := range a.Writes {
			x, y := a.Writes[i], b.Writes[i]
			if x.Commit != y.Commit || x.Start != y.Start || x.Kind != y.Kind || !bytes.Equal(x.Value, y.Value) {
				return false
			}
		}
	}
	return true
}
