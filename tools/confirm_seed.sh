#!/bin/bash
# usage: tools/confirm_seed.sh <dir with patch.diff + demo_test.go + meta.json> <demo package dir> <demo run regex> [nobaseline]
# Confirms a seeded change in a scratch worktree: applies, builds, demo fails with / passes without, baseline stable tests pass.
set -u
D=$1; PKG=$2; RUN=$3; NB=${4:-}
export GOFLAGS=-mod=mod GOPROXY=off GOTOOLCHAIN=auto
WT=/tmp/cf-$(basename $D)-$$
git -C /repo worktree add -q --detach $WT HEAD || exit 2
trap "git -C /repo worktree remove --force $WT" EXIT
cd $WT
git apply $D/patch.diff || { echo "RESULT patch-does-not-apply"; exit 1; }
(go build ./... && cd integration_tests && go build ./...) || { echo "RESULT build-fails"; exit 1; }
cp $D/demo_test.go $PKG/zz_seed_demo_test.go
runtest() { if [[ $PKG == integration_tests* ]]; then (cd integration_tests && go test -mod=mod -count=1 -run "$RUN" ./${PKG#integration_tests}/ ); else go test -count=1 -run "$RUN" ./$PKG/; fi; }
runtest > /tmp/cf-with.txt 2>&1; W=$?
git apply -R $D/patch.diff
runtest > /tmp/cf-without.txt 2>&1; WO=$?
git apply $D/patch.diff
rm $PKG/zz_seed_demo_test.go
echo "demo with change exit=$W (want !=0), without exit=$WO (want 0)"
tail -3 /tmp/cf-with.txt | cut -c1-200
if [ -z "$NB" ]; then
  /verif/tools/baseline_check.py $WT > /tmp/cf-baseline.txt 2>&1; B=$?
  tail -4 /tmp/cf-baseline.txt
else B=skipped; fi
echo "RESULT demo_with=$W demo_without=$WO baseline=$B"
