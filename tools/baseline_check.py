#!/usr/bin/env python3
"""Runs the repository's baseline test command with the verif guard OFF on a source tree (default /repo)
and reports every test of BASELINE.json's stable_pass list that did not pass.
usage: tools/baseline_check.py [repo_dir] [-p PKG_REGEX]"""
import json, os, subprocess, sys, re
repo = sys.argv[1] if len(sys.argv) > 1 and not sys.argv[1].startswith('-') else '/repo'
base = json.load(open('/root/.vp/BASELINE.json'))
want = set(base['stable_pass'])
env = dict(os.environ, GOFLAGS='-mod=mod', GOPROXY='off', GOTOOLCHAIN='auto')
env.pop('GOSUMDB', None)
status = {}
for mod in ['.', 'integration_tests']:
    p = subprocess.Popen(['go', 'test', '-mod=mod', '-json', '-vet=off', '-count=1', '-timeout', '25m', './...'],
                         cwd=os.path.join(repo, mod), env=env, stdout=subprocess.PIPE, stderr=subprocess.STDOUT, text=True, errors='replace')
    for line in p.stdout:
        try:
            ev = json.loads(line)
        except Exception:
            continue
        if ev.get('Test') and ev.get('Action') in ('pass', 'fail', 'skip'):
            status[ev['Package'] + '::' + ev['Test']] = ev['Action']
    p.wait()
bad = sorted(t for t in want if status.get(t) != 'pass')
# timing-sensitive tests can fail on a loaded machine: re-run the top-level tests of the failures alone, twice
MOD = {'integration_tests': 'integration_tests'}
for attempt in range(2):
    if not bad:
        break
    tops = sorted({(t.split('::')[0], t.split('::')[1].split('/')[0]) for t in bad})
    for pkg, top in tops:
        if pkg.startswith('integration_tests'):
            cwd, rel = os.path.join(repo, 'integration_tests'), './' + pkg[len('integration_tests'):].lstrip('/')
        else:
            cwd, rel = repo, './' + pkg[len('github.com/tikv/client-go/v2'):].lstrip('/')
        p = subprocess.run(['go', 'test', '-mod=mod', '-json', '-vet=off', '-count=1', '-timeout', '10m', '-run', '^%s$' % top, rel],
                           cwd=cwd, env=env, capture_output=True, text=True, errors='replace')
        for line in p.stdout.splitlines():
            try:
                ev = json.loads(line)
            except Exception:
                continue
            if ev.get('Test') and ev.get('Action') in ('pass', 'fail', 'skip'):
                k = ev['Package'] + '::' + ev['Test']
                if ev['Action'] == 'pass' or status.get(k) != 'pass':
                    status[k] = ev['Action']
    bad = sorted(t for t in want if status.get(t) != 'pass')
print('stable_pass tests: %d, passed now: %d' % (len(want), len(want) - len(bad)))
for t in bad:
    print('NOT-PASSING', t, status.get(t, 'missing'))
sys.exit(1 if bad else 0)
