#!/usr/bin/env python3
"""Sensitivity self-test on the genuine defects: for every `fixed` entry of known_findings.json, reverse-apply the
fix commit to /repo's working tree (never committed), run the owning property's quick check (thorough with
--thorough if quick stays green), and restore the tree. Writes seeded/REVERTED_FIXES.json."""
import json, os, subprocess, sys
ROOT = os.path.dirname(os.path.dirname(os.path.abspath(__file__)))
kf = json.load(open(os.path.join(ROOT, 'known_findings.json')))
thorough = '--thorough' in sys.argv
only = [a for a in sys.argv[1:] if not a.startswith('--')]
out_path = os.path.join(ROOT, 'seeded', 'REVERTED_FIXES.json')
results = json.load(open(out_path)) if os.path.exists(out_path) else {}
def sh(*a, **k):
    return subprocess.run(list(a), capture_output=True, text=True, errors='replace', **k)
assert sh('git', '-C', '/repo', 'status', '--porcelain').stdout.strip() == '', '/repo must be clean'
for f in kf['findings']:
    if f['status'] != 'fixed' or (only and f['key'] not in only and f['property'] not in only):
        continue
    c, pid, key = f['commit'], f['property'], f['key']
    diff = sh('git', '-C', '/repo', 'diff', c + '^', c).stdout
    r = subprocess.run(['git', '-C', '/repo', 'apply', '-R'], input=diff, capture_output=True, text=True)
    if r.returncode != 0:
        r = subprocess.run(['git', '-C', '/repo', 'apply', '-R', '--3way'], input=diff, capture_output=True, text=True)
    if r.returncode != 0:
        sh('git', '-C', '/repo', 'checkout', '--', '.'); sh('git', '-C', '/repo', 'reset', '-q')
        results[key] = {'property': pid, 'commit': c, 'verdict': 'cannot-revert (later changes overlap)'}
        print(key, 'cannot revert'); continue
    sh('git', '-C', '/repo', 'reset', '-q')
    b = sh('go', 'build', './...', cwd='/repo', env=dict(os.environ, GOFLAGS='-mod=mod', GOPROXY='off'))
    if b.returncode != 0:
        sh('git', '-C', '/repo', 'checkout', '--', '.')
        results[key] = {'property': pid, 'commit': c, 'verdict': 'reverted tree does not build'}
        print(key, 'does not build', (b.stdout + b.stderr)[-400:]); continue
    verdict = {}
    for tier in (['quick', 'thorough'] if thorough else ['quick']):
        p = sh('./check', pid, '--tier', tier, cwd=ROOT)
        verdict[tier] = 'caught' if p.returncode == 1 else ('missed' if p.returncode == 0 else 'inconclusive')
        if p.returncode == 1:
            break
    sh('git', '-C', '/repo', 'checkout', '--', '.')
    assert sh('git', '-C', '/repo', 'status', '--porcelain').stdout.strip() == ''
    results[key] = {'property': pid, 'commit': c, 'verdict': verdict}
    print(key, verdict, flush=True)
    json.dump(results, open(out_path, 'w'), indent=1, sort_keys=True)
