#!/usr/bin/env python3
"""Runs the registered checks against every seeded change under /verif/seeded/<name>/ (patch.diff + meta.json).
For each change: `git -C /repo apply patch.diff`, run the owning property's check (quick; thorough too if quick
stays green and --thorough is given), undo with `git -C /repo checkout -- .`. Never commits to /repo.
usage: tools/seeded.py [--thorough] [--also C01,C04] [name ...]
Writes seeded/RESULTS.json."""
import json, os, subprocess, sys, time
ROOT = os.path.dirname(os.path.dirname(os.path.abspath(__file__)))
SEEDED = os.path.join(ROOT, 'seeded')
args = sys.argv[1:]
thorough = '--thorough' in args
also = []
if '--also' in args:
    also = args[args.index('--also') + 1].split(',')
    del args[args.index('--also'):args.index('--also') + 2]
names = [a for a in args if not a.startswith('--')] or sorted(d for d in os.listdir(SEEDED) if os.path.isdir(os.path.join(SEEDED, d)))
respath = os.path.join(SEEDED, 'RESULTS.json')
results = json.load(open(respath)) if os.path.exists(respath) else {}

def clean():
    subprocess.run(['git', '-C', '/repo', 'checkout', '--', '.'], check=True)
    st = subprocess.run(['git', '-C', '/repo', 'status', '--porcelain'], capture_output=True, text=True).stdout.strip()
    if st:
        print('WARNING: /repo not clean after undo:\n' + st)

def run_check(pid, tier):
    t0 = time.time()
    env = dict(os.environ, VERIF_TIER=tier)
    p = subprocess.run(['./check', pid, '--tier', tier], cwd=ROOT, env=env, capture_output=True, text=True, errors='replace')
    out = p.stdout + p.stderr
    line = [l for l in out.splitlines() if l.startswith(('OK ', 'VIOLATION', 'INCONCLUSIVE'))]
    return {'exit': p.returncode, 'wall_s': round(time.time() - t0, 1), 'verdict': 'caught' if p.returncode == 1 else ('missed' if p.returncode == 0 else 'inconclusive'), 'line': (line[-1] if line else '')[:300]}

assert subprocess.run(['git', '-C', '/repo', 'status', '--porcelain'], capture_output=True, text=True).stdout.strip() == '', '/repo must be clean'
for name in names:
    d = os.path.join(SEEDED, name)
    meta = json.load(open(os.path.join(d, 'meta.json')))
    pid = meta['property']
    r = subprocess.run(['git', '-C', '/repo', 'apply', os.path.join(d, 'patch.diff')], capture_output=True, text=True)
    if r.returncode != 0:
        print(name, 'PATCH DOES NOT APPLY:', r.stderr.strip()[:300])
        results[name] = {'property': pid, 'error': 'patch does not apply'}
        clean()
        continue
    try:
        res = {'property': pid, 'title': meta.get('title', ''), 'checks': {}}
        for c in [pid] + [a for a in also if a != pid]:
            q = run_check(c, 'quick')
            res['checks'][c] = {'quick': q}
            print(name, c, 'quick', q['verdict'], q['wall_s'], q['line'][:120], flush=True)
            if q['verdict'] != 'caught' and thorough:
                t = run_check(c, 'thorough')
                res['checks'][c]['thorough'] = t
                print(name, c, 'thorough', t['verdict'], t['wall_s'], t['line'][:120], flush=True)
        results[name] = res
    finally:
        clean()
    json.dump(results, open(respath, 'w'), indent=1, sort_keys=True)
print('done')
