#!/usr/bin/env python3
"""Prints the markdown tables of DESIGN.md §14 from seeded/RESULTS.json, seeded/*/meta.json and seeded/REVERTED_FIXES.json."""
import json, os
ROOT = os.path.dirname(os.path.dirname(os.path.abspath(__file__)))
res = json.load(open(os.path.join(ROOT, 'seeded', 'RESULTS.json')))
print('| seeded change | file | what it breaks | caught by |')
print('|---|---|---|---|')
for name in sorted(res):
    r = res[name]
    meta = json.load(open(os.path.join(ROOT, 'seeded', name, 'meta.json')))
    caught = []
    for c, v in sorted(r.get('checks', {}).items()):
        q = v['quick']['verdict']
        t = v.get('thorough', {}).get('verdict')
        if q == 'caught':
            caught.append('%s quick' % c)
        elif t == 'caught':
            caught.append('%s thorough (quick: %s)' % (c, q))
        else:
            caught.append('%s MISSED' % c)
    files = ', '.join(os.path.basename(f) for f in meta.get('files', []))
    print('| `seeded/%s` | %s | %s | %s |' % (name, files, meta.get('title', '').replace('|', '/'), '; '.join(caught)))
rv = json.load(open(os.path.join(ROOT, 'seeded', 'REVERTED_FIXES.json')))
print()
print('| reverted fix | owning check, quick tier |')
print('|---|---|')
for k in sorted(rv):
    v = rv[k]['verdict']
    print('| `%s` (%s) | %s |' % (k, rv[k]['commit'], v if isinstance(v, str) else ', '.join('%s: %s' % kv for kv in v.items())))
