#!/usr/bin/env python3
"""Regenerates /verif/MANIFEST.json from checks_table.py (single source of truth for the check registry)."""
import json, os, subprocess
ROOT = os.path.dirname(os.path.abspath(__file__))
import sys
sys.path.insert(0, ROOT)
from checks_table import CHECKS, NOT_CLAIMED, HOOK_COMMITS

ids = [json.loads(l)["id"] for l in open(os.path.join(ROOT, "properties.jsonl"))]
checks, na = [], []
for pid in ids:
    c = CHECKS.get(pid)
    if c and c.get("claimed", True):
        checks.append({
            "property_id": pid,
            "quick_cmd": "./check %s --tier quick" % pid,
            "thorough_cmd": "./check %s --tier thorough" % pid,
            "evidence_file": "/verif/evidence/%s.json" % pid,
            "replay_cmd_template": "./check %s --replay {path}" % pid,
            "engine": "rapid-harness",
            "level_claimed": {"category": c.get("level", "exploration"), "text": c["level_text"], "design_ref": c.get("design_ref", "DESIGN.md §3/" + pid)},
            "level_note": c["level_note"],
            "technique": c["technique"],
        })
    else:
        na.append({"property_id": pid, "reason": NOT_CLAIMED.get(pid, "check not built yet in this session; no claim is made")})
m = {
    "version": 1,
    "setup_cmd": "./setup.sh",
    "hooks": {
        "guard": "verif",
        "enable": "go test -tags verif (the ./check driver builds every harness package from /repo's working tree with -tags verif)",
        "baseline_off_cmd": "for m in . integration_tests; do (cd /repo/$m && go test -mod=mod -json -vet=off -count=1 -timeout 25m ./...); done",
        "source_commits": HOOK_COMMITS,
        "add_only": True,
    },
    "engines": [{
        "name": "rapid-harness", "path": "/verif/harness",
        "serves_properties": [c["property_id"] for c in checks],
        "kind_free_text": "Go module path-nested under client-go (replace => /repo) holding one test package per property: pgregory.net/rapid v1.3.0 generators and state machines, small exhaustive enumerators, explicit oracles (reference models, differentials, round trips, history invariants); driven and merged into evidence by /verif/check",
    }],
    "checks": checks,
    "not_applicable": na,
    "notes": "All checks are generated-input search against an explicit oracle (property-based testing / fuzzing); see DESIGN.md. Exit 2 of ./check means inconclusive (infrastructure), never a violation.",
}
json.dump(m, open(os.path.join(ROOT, "MANIFEST.json"), "w"), indent=1)
print("claimed:", [c["property_id"] for c in checks])
print("not claimed:", [n["property_id"] for n in na])
