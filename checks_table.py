"""Per-property job table of the ./check driver: package, test functions and case counts per tier."""

CHECKS = {
    "C19": {
        "pkg": "c19",
        "level": "exploration",
        "technique": "property-based testing (rapid) + exhaustive boundary-domain enumeration; oracles: round trip with exact suffix, order embedding, prefix-freeness, independent reference decoders",
        "level_text": "Every string of length<=3 over the boundary alphabet and all boundary fillings of lengths 4..26 are enumerated completely (all ordered pairs), all ordered pairs of integer boundary constants likewise; beyond that 10^5-10^6 random strings/integers/hostile inputs per run. This decides the property on the finite boundary domain its quantifier names and samples the rest; it is not a proof for all 2^64 integers.",
        "level_note": "Trusted: Go's bytes.Compare and encoding/binary as reference for plain varints; the harness's 30-line independent decoder of the documented comparable-varint tag format.",
        "tests": [
            {"name": "TestBytesExhaustive", "quick": 1, "thorough": 1, "shards": 1},
            {"name": "TestIntsBoundaryExhaustive", "quick": 1, "thorough": 1, "shards": 1},
            {"name": "TestBytesRapid", "quick": 20000, "thorough": 200000, "shards": 4},
            {"name": "TestBytesMalformed", "quick": 30000, "thorough": 300000, "shards": 4},
            {"name": "TestInts", "quick": 30000, "thorough": 300000, "shards": 4},
            {"name": "TestIntsMalformed", "quick": 30000, "thorough": 300000, "shards": 4},
        ],
    },
}

CHECKS["C20"] = {
    "pkg": "c20",
    "level": "exploration",
    "technique": "stateful property-based testing (rapid state machine) against an accounting reference model, plus a deterministic kind x budget grid run to exhaustion",
    "level_text": "Random operation sequences (thousands per run, ~30-100 steps each incl. bursts that drive the 10-minute excluded cap) over a tree of real Backoffers with virtual sleeping; after every step all accounting getters are compared with an independent model and the budget / per-step / error-kind / cancel / kill clauses are asserted. A grid of every kind x 9 budgets x 2 weights x 4 per-call maxima is run to exhaustion deterministically. Sampling, not proof.",
    "level_note": "Trusted: the failpoint fastBackoffBySkipSleep only skips the real sleep (it keeps the accounting path); the kind table (base/cap/jitter/error) in the harness is copied from the documented configuration.",
    "tests": [
        {"name": "TestBackoffModel", "quick": 3000, "thorough": 40000, "shards": 8},
        {"name": "TestBudgetSweep", "quick": 1, "thorough": 1, "shards": 1},
    ],
}

CHECKS["C17"] = {
    "pkg": "c17",
    "level": "exploration",
    "technique": "exhaustive interleaving enumeration at method granularity (harness plays the scheduler) against a specification model + rapid-sampled larger configurations + goroutine stress of the real scheduler",
    "level_text": "For every configuration of <=2 txns x <=3 keys (quick) and additionally 3 txns x <=2 keys x all 90 timestamp orders x {1,2} slots (thorough, complete) every interleaving of arrive/release/wake is executed on the real Latches and compared with a FIFO-per-key specification after every step; configurations up to the property's full bound (4 txns x 3 keys) are sampled by rapid with all their interleavings. Configurations that reach the latch's memory bound (1 slot, 6-9 txns, 8 keys, timestamps two minutes apart) are walked along one drawn interleaving each (TestRecycling). The real scheduler goroutine is stressed with up to 15 goroutines. Interleavings below method granularity (inside one slot mutex) are reached by the stress part only.",
    "level_note": "Trusted: the hook internal/latch/verif_export.go only forwards to genLock/acquire/release; in the enumerated and sampled configurations timestamps stay within one physical millisecond, so the 2-minute recycler never acts there; TestRecycling covers it separately with TSO-scale timestamps and a model that may forget a max commit ts only where the recycler is allowed to.",
    "tests": [
        {"name": "TestEnumSmall", "quick": 1, "thorough": 1, "shards": 1},
        {"name": "TestEnum3", "quick": 1, "thorough": 1, "shards": 16, "thorough_only": True},
        {"name": "TestSampled", "quick": 1500, "thorough": 12000, "shards": 8},
        {"name": "TestRecycling", "quick": 4000, "thorough": 100000, "shards": 4},
        {"name": "TestSchedulerStress", "quick": 1, "thorough": 1, "shards": 4, "race": True},
    ],
}

CHECKS["C07"] = {
    "pkg": "c07",
    "level": "exploration",
    "technique": "stateful property-based testing (rapid state machine) against a sorted-map + value-log reference model",
    "level_text": "Thousands of random programs of set/delete/get/batch-get/iter/iter-reverse/staging/release/cleanup/checkpoint/revert over adversarial keys and arbitrary snapshot content; every read is compared with the model and the complete view is re-read after every step. Sampling, not proof.",
    "level_note": "Trusted: the 40-line map-backed snapshot stub implements the documented Iter/IterReverse bound semantics; checkpoints are only reverted when not older than the current stage (what callers do).",
    "tests": [
        {"name": "TestUnionStoreModel", "quick": 6000, "thorough": 60000, "shards": 8},
        {"name": "TestKnownCheckpointInPlace", "quick": 1, "thorough": 1, "shards": 1},
    ],
}

CHECKS["C08"] = {
    "pkg": "c08",
    "level": "exploration",
    "technique": "stateful property-based testing: three-way differential (ART vs RBT vs reference model) under one rapid state machine",
    "level_text": "Thousands of random operation sequences per run drive the radix-tree buffer, the red-black-tree buffer and an independent reference model in lock-step; every observable of the property (values, tombstones, flags incl. survival across undo, Len/Size/Dirty, snapshot reads, bounded iteration both ways, flag iterators and key handles, stage inspection, value history, size limits, stale iterator) is compared pairwise. ART-vs-RBT agreement is model-free; the model pins which answer is right. Sampling, not proof.",
    "level_note": "Trusted: the hook only exposes the unexported RBT constructor. Not compared (intentional differences between the buffers): Mem()/memory accounting, internal handle values, cache hit counters, ErrTxnTooLarge on flag-only updates.",
    "tests": [
        {"name": "TestBuffersModel", "quick": 8000, "thorough": 25000, "shards": 16, "timeout_q": 400},
        {"name": "TestKeyLimit", "quick": 30, "thorough": 200, "shards": 1},
    ],
}

CHECKS["C12"] = {
    "pkg": "c12",
    "level": "exploration",
    "technique": "stateful property-based testing (rapid state machine) of the mock store against an independent reference MVCC model, with state-dump comparison after every command",
    "level_text": "Thousands of random command sequences per run over <=4 keys and <=4 transactions with all relative timestamp orders; after every command the answer class/values and the complete per-key MVCC state (plus hidden lock fields through a probe) are compared with the reference model; idempotence, scan=gets, GC read preservation and the three 'reference is TiKV' clauses are asserted directly. Sampling, not proof; the exhaustive small-depth enumeration of the design is replaced by high-volume sampling of short sequences.",
    "level_note": "Trusted: the ~600-line reference model (harness/mvccmodel, contract in DESIGN.md Appendix A); where the statement is silent (error precedence when two errors apply, existence assertion over Lock records, deadlock vs locked) the model accepts either / copies the mock.",
    "tests": [
        {"name": "TestMockVsModel", "quick": 8000, "thorough": 30000, "shards": 16},
    ],
}

CHECKS["C13"] = {
    "pkg": "c13",
    "level": "exploration",
    "technique": "property-based testing with a harness-owned response order (scripted PD, rapid-drawn release permutation) + history invariants over the issuance log; goroutine stress for the CAS loop; scripted-oracle commit-wait cases",
    "level_text": "The PD stub assigns timestamps at request arrival and the harness releases responses in a drawn order while 1-6 callers run drawn scripts, so response reordering - the dimension the property quantifies over - is owned, not hoped for. Invariants O1-O4 are evaluated on the recorded history; IsExpired/UntilExpired are probed around the cached ts at every step. The local/mock oracles and the commit-wait loop get dedicated generators. Interleavings inside the CAS loop are reached by free-running stress only (under -race in the thorough tier).",
    "level_note": "Trusted: 8 ms quiescence waits only shape the schedule (they never decide a verdict); real-time order is taken from one atomic event counter read immediately before/after each call.",
    "tests": [
        {"name": "TestOwnedSchedule", "quick": 120, "thorough": 1200, "shards": 8},
        {"name": "TestStress", "quick": 1, "thorough": 1, "shards": 4, "race": True},
        {"name": "TestLocalAndMock", "quick": 1, "thorough": 1, "shards": 2, "race": True},
        {"name": "TestCommitWait", "quick": 3000, "thorough": 30000, "shards": 2},
    ],
}

CHECKS["C09"] = {
    "pkg": "c09",
    "level": "exploration",
    "technique": "stateful property-based testing (rapid state machine) with ground-truth topology history, a stale-answer PD shim, geometric coverage validity predicates and a per-probe-key non-regression monitor",
    "level_text": "Random interleavings of topology changes, stale PD answers, every lookup API, invalidation and real sends; after every lookup containment/coverage/grouping are checked geometrically (so stale-but-contiguous answers are accepted - the property does not demand freshness), 17 probe keys are compared before/after each operation for installed-older-over-newer, and at the end every probe key must reach the current leader through the standard relocate loop. Sampling, not proof.",
    "level_note": "Trusted: the mocktikv Cluster as topology ground truth (the harness patches its epochs to TiKV's rules: both halves of a split get parent.ver+1, a merge max+1, because the cache's staleness rule is defined on such epochs); TTL expiry is not exercised (needs >=1 s of real time per case).",
    "tests": [
        {"name": "TestRegionCache", "quick": 4000, "thorough": 15000, "shards": 16},
    ],
}

CHECKS["C10"] = {
    "pkg": "c10",
    "level": "exploration",
    "technique": "property-based testing of SendReqCtx against a rapid-scripted store client (fault scripts as generated input) with invariants over the recorded attempt trace; back-off sleeps virtualised",
    "level_text": "Each case draws a fault script (<=12 scripted answers then a terminal behaviour), a command, a replica-read mode, selector options, liveness, forwarding, topology and budget, runs one real SendReqCtx and evaluates P1-P6 on the recorded attempts (target, flags, retry marker, accumulated sleep) and on the returned value (pointer identity with a scripted success). Thousands of scripts per run; sampling, not proof; termination is decided within a virtual budget (no wall-clock liveness claim).",
    "level_note": "Trusted: fastBackoffBySkipSleep keeps the back-off accounting; injectLiveness replaces real liveness probes. Writes are generated with every replica-read type but never with the stale flag (no caller sets it and the statement does not cover it).",
    "tests": [
        {"name": "TestSendReq", "quick": 4000, "thorough": 40000, "shards": 16},
    ],
}

CHECKS["C11"] = {
    "pkg": "c11",
    "level": "exploration",
    "technique": "stateful property-based testing (rapid state machine) of the raw client against a sorted-map model, with topology faults injected between and inside calls through an RPC interposer",
    "level_text": "Random sequences of all raw operations over boundary-heavy keys and 1-7 regions on 3 stores; splits, merges and leader transfers are drawn between calls and at a drawn request index inside a call; every result is compared with the ordered-map model (batch get positionally, scans as the first 'limit' pairs in order, delete-range as exactly [start,end), checksum recomputed), the interposer additionally checks key ownership of every accepted raw request, and a final full scan must equal the model. Sampling, not proof.",
    "level_note": "Trusted: mocktikv's raw store as the data plane. TTL expiry is not modelled (the mock ignores TTL); key-only scans are compared on keys; an absent key in BatchGet may be nil or empty (the mock returns a pair with a nil value).",
    "tests": [
        {"name": "TestRawKVModel", "quick": 1200, "thorough": 12000, "shards": 16},
    ],
}

CHECKS["C15"] = {
    "pkg": "c15",
    "level": "exploration",
    "technique": "reflection-enumerated command catalogue with marker-filled messages (round-trip / prefix oracle against a name rule over the proto definitions) + property-based testing of key and range encodings + keyspace end-to-end differential",
    "level_text": "The command catalogue is enumerated completely by reflection (every CmdType with a name, its request and response message types discovered, not hand-listed) for both modes and four keyspace ids; every bytes leaf of every request/response is filled with a marker and the encode/decode result is classified leaf by leaf, so an unprefixed request key or an unstripped response key of any command is caught. Key/range encodings (round trip, order, isolation, region-range clipping) are sampled by rapid against an independent intersection model. End to end, raw and transactional clients of three keyspaces (ids 1, 2, 0xffffff) share one mocktikv cluster whose regions are split at generated physical keys, and a rapid state machine compares every call of every tenant with that tenant's own ordered map (TestKeyspaceEndToEnd).",
    "level_note": "Trusted: the name rule that classifies bytes fields as key-bearing (field name contains 'key', or is primary_lock/primary/secondaries, or start/end of a KeyRange) with a reviewed allow-list (deprecated SplitRegionRequest.split_key, TiFlash CompactRequest keys); the classification table is emitted in the evidence for audit.",
    "tests": [
        {"name": "TestCatalogue", "quick": 1, "thorough": 1, "shards": 1},
        {"name": "TestKeyAndRange", "quick": 20000, "thorough": 200000, "shards": 4},
        {"name": "TestRangeRequests", "quick": 10000, "thorough": 100000, "shards": 4},
        {"name": "TestKeyspaceEndToEnd", "quick": 2000, "thorough": 40000, "shards": 8},
    ],
}

CHECKS["C16"] = {
    "pkg": "c16",
    "level": "exploration",
    "technique": "stateful property-based testing (rapid state machine) with a harness-owned flush function (flush duration relative to later writes is an owned schedule) against a three-level map model; transaction-level part on the simulated cluster",
    "level_text": "The harness flush function parks until the machine releases it, so reads and writes during a running flush, flush failures and their surfacing point are generated, not hoped for. Every read is compared with the mutable>flushing>flushed model, every flush call's content with the writes since the previous flush, generations and single-flight are asserted. The commit/rollback clause (all flushed locks of the touched range reach the primary's outcome) is checked at transaction level on the simulated cluster (TestPipelinedTxn).",
    "level_note": "Trusted: failpoints pipelinedMemDBMinFlushKeys/Size only lower the thresholds. Iteration APIs are unsupported by the pipelined buffer by design and not exercised.",
    "tests": [
        {"name": "TestPipelinedBuffer", "quick": 3000, "thorough": 30000, "shards": 8},
        {"name": "TestPipelinedTxn", "quick": 400, "thorough": 1500, "shards": 4, "timeout_q": 400},
    ],
}

CHECKS["C01"] = {
    "pkg": "c01",
    "level": "exploration",
    "technique": "model-based generation of concurrent transaction programs with RPC-level interleaving gates and tolerated faults on a simulated cluster; oracle = history invariants (snapshot isolation, write-write exclusion, locking reads, inserts, external consistency) checked against the store's raw MVCC truth",
    "level_text": "Thousands of generated programs per run (2-4 transactions, all client APIs, both transaction kinds, region layouts, batch sizes, leader moves, region errors, and gates that run another transaction's step while a prewrite/commit/lock RPC is parked) are executed on an in-process cluster with a virtual clock; afterwards all locks are expired and resolved and every recorded read, acknowledgement and commit interval is checked against the final MVCC records; the same rules are evaluated on histories in which a committing client is killed at a swept request position (generator of C02) and other clients recover. One class of violation of the insert clause is a listed known finding (replayed by TestKnownFindings, excluded and counted in the search). Interleavings are owned at RPC granularity, not at instruction granularity; absence of violations is not a proof.",
    "level_note": "Trusted: mocktikv (itself checked by C12) and TiDB's unistore as store implementations; the history checker (harness/sim/history.go); locks are expired by advancing the virtual TSO clock (mocktikv) or by skewing the clients' clock (unistore).",
    "tests": [
        {"name": "TestHistories", "quick": 2500, "thorough": 6000, "shards": 16, "timeout_q": 400},
        {"name": "TestHistoriesUni", "quick": 400, "thorough": 4000, "shards": 16, "timeout_q": 400},
        {"name": "TestKnownFindings", "quick": 1, "thorough": 1, "shards": 1},
        {"name": "TestCrashHistories", "quick": 80, "thorough": 400, "shards": 16, "timeout_q": 400},
        {"name": "TestCrashHistoriesUni", "quick": 220, "thorough": 500, "shards": 16, "timeout_q": 400},
    ],
}

CHECKS["C02"] = {
    "pkg": "c02",
    "level": "fault_enumeration",
    "technique": "generated commit scenarios x exhaustive crash-point sweep: the victim client is killed before / after each individual request its Commit issues (synchronous and background), then other simulated clients recover; oracle = history invariants over the raw MVCC truth (single outcome, one commit ts, acknowledgement consistency, no partial snapshot, no lock left)",
    "level_text": "For every generated scenario the number N of requests the fault-free Commit sends is measured and the scenario is re-executed for every crash point (2N executions in the thorough tier, an evenly spaced subset of at most 12 points in the quick tier) on mocktikv (2PC, 1 or 3 stores) and on unistore (async commit, 1PC). The client process is modelled by its connection: from the crash instant on all its requests fail and its background goroutines can no longer reach the store. Crash points between two instructions of the client that do not involve a request are indistinguishable from the neighbouring request boundaries for the store and are therefore covered; crashes of the stores themselves are out of scope.",
    "level_note": "Trusted: mocktikv (checked by C12) and unistore as stores, lock expiry simulated by advancing the virtual TSO clock (mocktikv) or skewing the clients' clock (unistore).",
    "tests": [
        {"name": "TestCrashPoints", "quick": 260, "thorough": 500, "shards": 16, "timeout_q": 400, "timeout_t": 3000},
        {"name": "TestCrashPointsUni", "quick": 150, "thorough": 300, "shards": 16, "timeout_q": 400, "timeout_t": 3000},
    ],
}

CHECKS["C03"] = {
    "pkg": "c03",
    "level": "fault_enumeration",
    "technique": "generated commit scenarios x fault-position sweep (lost request, lost response, five region errors, split, leader transfer, resolver race on a skewed clock at every request of Commit) plus generated multi-fault plans, with a fault-free twin; oracle = Commit's answer versus the raw MVCC truth after recovery, and a trace predicate that justifies every 'undetermined'",
    "level_text": "Each generated scenario is executed once fault-free (twin), once per (request position, fault kind) and with 1-3 generated multi-fault plans, on mocktikv (2PC, virtual time) and unistore (async commit, 1PC). Faults are injected by the per-client RPC interposer; a resolver race runs another client, for which all locks look expired, while the victim's request is parked. Interleavings inside the store or inside the client between two requests are not enumerated.",
    "level_note": "Trusted: mocktikv (C12) and unistore as stores; the injected region errors are synthesised by the interposer (the store did not execute the request).",
    "tests": [
        {"name": "TestTruthful", "quick": 30, "thorough": 250, "shards": 16, "timeout_q": 400, "timeout_t": 3000},
        {"name": "TestTruthfulUni", "quick": 20, "thorough": 150, "shards": 16, "timeout_q": 400, "timeout_t": 3000},
    ],
}

CHECKS["C04"] = {
    "pkg": "c04",
    "level": "exploration",
    "technique": "runtime trace monitor (pure function over every RPC crossing the client/store boundary, the timestamps granted by the virtual PD and the recorded API calls) evaluated on generated executions: concurrent programs, commit scenarios x fault / crash / resolver-race sweeps, wide transactions regrouped by real splits, heart-beat scenarios",
    "level_text": "Nine rule groups M1-M9 taken from the statement are evaluated on every trace produced by four generators on mocktikv and unistore. The monitor sees requests and answers at the tikv.Client boundary with a global event order (send / return / TSO grant / API call), so ordering rules are checked against what the client could know at the time it sent a request. Rules are checked on explored executions only.",
    "level_note": "Trusted: the interposer's event order; mocktikv / unistore answers. Not covered: assertion fields of mutations (the generators set no assertions), GC's batch resolution (exempt by the statement; exercised in C14), the for-update-ts constraint clause that is cut off in the statement text.",
    "tests": [
        {"name": "TestMonitorPrograms", "quick": 400, "thorough": 5000, "shards": 16, "timeout_q": 400},
        {"name": "TestMonitorProgramsUni", "quick": 250, "thorough": 3000, "shards": 16, "timeout_q": 400},
        {"name": "TestMonitorFaults", "quick": 12, "thorough": 200, "shards": 16, "timeout_q": 400, "timeout_t": 3000},
        {"name": "TestMonitorFaultsUni", "quick": 8, "thorough": 120, "shards": 16, "timeout_q": 400, "timeout_t": 3000},
        {"name": "TestMonitorRegroup", "quick": 300, "thorough": 4000, "shards": 16, "timeout_q": 400},
        {"name": "TestMonitorHeartBeats", "quick": 110, "thorough": 150, "shards": 8, "timeout_q": 400},
    ],
}

CHECKS["C05"] = {
    "pkg": "c05",
    "level": "exploration",
    "technique": "generated MVCC histories with leftover locks (writers crashed at drawn points) x generated reader specifications (four access paths, bounds, batch sizes, key-only, cold/warm cache, topology change at a gate, SetSnapshotTS); oracle = truth(ts) computed from the raw MVCC records after recovery, compared exactly with every read",
    "level_text": "Thousands of generated (history, reader) pairs per run on mocktikv (1 or 3 stores, reverse scans, virtual clock) and unistore (async-commit / 1PC leftovers; no reverse scans, see DESIGN.md). Every read is executed twice and again after SetSnapshotTS; all paths are compared with the same ground truth, which also makes them agree with each other.",
    "level_note": "Trusted: mocktikv (C12) and unistore as stores; ground truth is read through MvccGetByKey after all locks were resolved by an auditor client.",
    "tests": [
        {"name": "TestSnapshotReads", "quick": 600, "thorough": 4000, "shards": 16, "timeout_q": 400},
        {"name": "TestSnapshotReadsUni", "quick": 300, "thorough": 2000, "shards": 16, "timeout_q": 400},
        {"name": "TestKnownFindings", "quick": 1, "thorough": 1, "shards": 1},
    ],
}

CHECKS["C06"] = {
    "pkg": "c06",
    "level": "exploration",
    "technique": "model-based generation of concurrent transaction programs (lock calls with all options, aggressive-locking attempts, failing statements, commits and rollbacks, region errors and topology changes at gates, no lost message); oracle = invariant over the final store state: no lock of an ended transaction, checked without expiring any lock",
    "level_text": "Thousands of generated programs per run on mocktikv (deadlocks through the mock's detector) and unistore (async commit / 1PC, locked-with-conflict results), both with aggressive-locking statement attempts. The store is scanned after every program; a lock is reported only if it is still present after 5 s of polling with no RPC in flight.",
    "level_note": "Trusted: mocktikv / unistore; drain detection by RPC silence plus polling.",
    "tests": [
        {"name": "TestNoLeftoverLocks", "quick": 500, "thorough": 6000, "shards": 16, "timeout_q": 400},
        {"name": "TestNoLeftoverLocksUni", "quick": 1600, "thorough": 3000, "shards": 16, "timeout_q": 400},
    ],
}

CHECKS["C14"] = {
    "pkg": "c14",
    "level": "exploration",
    "technique": "generated lock populations (writers crashed at drawn points) x GC runs with drawn safe point, concurrency, scan limit and splits during the scan; oracle = invariants over the store scan and the raw MVCC records against commit points read off the store-side trace; plus model-based properties of the range task (exact cover), the delete-range task (ordered-map model) and the safe-point check (threshold predicate)",
    "level_text": "Four generated checks: GC lock resolution on mocktikv and unistore (async-commit / 1PC leftovers), range-task cover, delete-range against a map model, refusal of reads below the cached transaction safe point on all four read paths.",
    "level_note": "Trusted: mocktikv / unistore stores and their PD mocks (AdvanceTxnSafePoint, UpdateGCSafePoint). The GC worker of TiDB (delete-ranges phase, safe point computation) is outside client-go.",
    "tests": [
        {"name": "TestGCLocks", "quick": 1200, "thorough": 3000, "shards": 16, "timeout_q": 400},
        {"name": "TestGCLocksUni", "quick": 800, "thorough": 1500, "shards": 16, "timeout_q": 400},
        {"name": "TestRangeTask", "quick": 1500, "thorough": 20000, "shards": 8, "timeout_q": 400},
        {"name": "TestDeleteRange", "quick": 400, "thorough": 5000, "shards": 8, "timeout_q": 400},
        {"name": "TestSafePointRefusal", "quick": 300, "thorough": 2000, "shards": 2, "timeout_q": 200},
    ],
}

CHECKS["C18"] = {
    "pkg": "c18",
    "level": "exploration",
    "technique": "generated server scripts (delays, reordering, stream breaks, stray and repeated answers, unanswered ids, server stop / restart) x generated caller populations (time-outs, cancellations, priorities, forwarding, collapsed ResolveLock, concurrent CloseAddr) against the real RPCClient over loopback gRPC; oracle = round trip of a unique payload per call, exactly-once return, bounded return time",
    "level_text": "Each generated case runs 1-48 goroutines x 1-6 calls against a scripted loopback server and checks every call's result against its own payload; the connection is closed concurrently (CloseAddr) in one case out of five and the whole client is shut down midway (Close, then CloseAddr) in another fifth. Real sockets and wall-clock time: the interleavings inside the client are whatever the runtime produces, so a failure is reported with the script and call specs but may not replay deterministically; the thorough tier also runs under the race detector.",
    "level_note": "Trusted: grpc-go, loopback networking. Exits inconclusive (2) if loopback is unavailable.",
    "tests": [
        {"name": "TestBatchMultiplexing", "quick": 250, "thorough": 600, "shards": 8, "timeout_q": 400, "timeout_t": 2400, "race": True},
    ],
}

# properties without a registered check, with the reason (kept current by hand)
NOT_CLAIMED = {}

# commits in /repo that add build-tag-guarded hooks
HOOK_COMMITS = ["1dfea34", "86272ad"]
