#!/bin/sh
# Offline setup: warm the Go build cache for the harness (everything is rebuilt from /repo by each check anyway).
set -e
cd "$(dirname "$0")/harness"
export GOFLAGS=-mod=mod GOPROXY=off GOTOOLCHAIN=auto
unset GOSUMDB
go build ./... 
go vet -tags verif ./ev >/dev/null 2>&1 || true
echo setup ok
